//! access shim (child module of `mvreg`)
use super::MVReg;
use crate::VClock;
pub fn from_vals<V, A: Ord>(vals: Vec<(VClock<A>, V)>) -> MVReg<V, A> {
    MVReg { vals }
}
pub fn vals<V, A: Ord>(r: &MVReg<V, A>) -> &Vec<(VClock<A>, V)> {
    &r.vals
}
