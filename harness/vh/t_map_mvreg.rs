//! Map<u8, MVReg<u8,u8>, u8>: bounded symbolic histories through the public API (C05, C01, C20, C08).
//!
//! `NW` ops; op `k` is issued by actor `act[k]` on that actor's own replica after it has applied its own
//! earlier ops and a causally closed symbolic subset `obs[k]` of the earlier ops of others. An op is
//! `update(key, get(key)/read_ctx() add context, |reg, ctx| reg.write(val, ctx))` or
//! `rm(key, get(key).derive_rm_ctx())`, built by the real API on the author's state.
//! Replica `T` applies all ops in issue order (a causal order), `T2` in another causal order.
//! Oracle (the property statement, in terms of what the authors had seen): an update `u` to key `k` is
//! removed iff some remove of `k` had observed `u`; it is superseded iff a later update of `k` had observed
//! it; key `k` is present iff some update of `k` is not removed; its value shows exactly the updates of `k`
//! that are neither removed nor superseded.
use super::common::*;
use crate::map::{Map, Op};
use crate::mvreg::MVReg;
use crate::{CmRDT, CvRDT};

pub const NW: usize = 3;
const NKEY: u8 = 2;
type M = Map<u8, MVReg<u8, u8>, u8>;

fn vals_of(m: &M, key: u8) -> (bool, [u8; 4], usize) {
    let g = m.get(&key);
    match g.val {
        None => (false, [0; 4], 0),
        Some(reg) => {
            let rd = reg.read();
            let mut out = [0u8; 4];
            let mut n = 0;
            for v in rd.val.iter() {
                if n < 4 {
                    out[n] = *v;
                }
                n += 1;
            }
            (true, out, n)
        }
    }
}

//@ disabled-harness (774 s of symbolic execution for 3 ops, then the solver runs out of memory; native runs of this harness find the C20 defect below) props=C05,C01,C08,C20 variants=3 name=Map<MVReg> bounded history: 3 ops (update / key remove) by up to 3 actors on 2 keys, each built by the API on the author's replica after a causally closed set of earlier ops; slice 0: two causal delivery orders give == replicas with equal reads, slice 1: key presence = some update not observed by a remove, slice 2: the value shows exactly the updates neither removed nor superseded
#[no_mangle]
pub fn h_mapmv_hist(inp: &Inp) -> u8 {
    let mut i = In::new(inp);
    let slice = i.variant(3);
    let mut reps: [M; 3] = [Map::new(), Map::new(), Map::new()];
    let mut ops: [Option<Op<u8, MVReg<u8, u8>, u8>>; NW] = [None, None, None];
    let mut act = [0usize; NW];
    let mut obs = [0u8; NW];
    let mut is_rm = [false; NW];
    let mut key = [0u8; NW];
    let mut k = 0;
    while k < NW {
        let a = i.below(NA) as usize;
        let m = i.below(1 << NW);
        let rm = i.bool();
        let ky = i.below(NKEY);
        let from_get = i.bool();
        act[k] = a;
        key[k] = ky;
        i.assume(m >> k == 0);
        let mut j = 0;
        while j < k {
            if (m >> j) & 1 == 1 {
                i.assume(obs[j] & !m == 0);
            }
            if act[j] == a {
                i.assume((m >> j) & 1 == 1);
            }
            j += 1;
        }
        obs[k] = m | (1 << k);
        let mut j = 0;
        while j < k {
            if (m >> j) & 1 == 1 {
                if let Some(o) = &ops[j] {
                    reps[a].apply(o.clone());
                }
            }
            j += 1;
        }
        let val = 10 + k as u8;
        let op = if rm {
            is_rm[k] = true;
            reps[a].rm(ky, reps[a].get(&ky).derive_rm_ctx())
        } else {
            let ctx = if from_get { reps[a].get(&ky).derive_add_ctx(a as u8) } else { reps[a].read_ctx().derive_add_ctx(a as u8) };
            reps[a].update(ky, ctx, |reg, c| reg.write(val, c))
        };
        vtrace!("op{} actor {} observed {:04b}: {:?}", k, a, m, op);
        reps[a].apply(op.clone());
        ops[k] = Some(op);
        k += 1;
    }
    let sw = i.below(NW as u8 - 1) as usize;
    if !i.ok {
        return 2;
    }
    let mut t: M = Map::new();
    let mut k = 0;
    while k < NW {
        if let Some(o) = &ops[k] {
            t.apply(o.clone());
        }
        k += 1;
    }
    vtrace!("T (issue order) = {:?}", t);
    if slice == 0 {
        // another causal order: swap two adjacent concurrent ops
        let can_swap = (obs[sw + 1] >> sw) & 1 == 0;
        let mut t2: M = Map::new();
        let mut k = 0;
        while k < NW {
            let j = if can_swap && k == sw {
                sw + 1
            } else if can_swap && k == sw + 1 {
                sw
            } else {
                k
            };
            if let Some(o) = &ops[j] {
                t2.apply(o.clone());
            }
            k += 1;
        }
        let mut ky = 0u8;
        while ky < NKEY {
            let (p1, v1, n1) = vals_of(&t, ky);
            let (p2, v2, n2) = vals_of(&t2, ky);
            if p1 != p2 || n1 != n2 {
                return 0;
            }
            let mut x = 0;
            while x < 4 {
                if x < n1 {
                    let c1 = v1.iter().take(n1).filter(|y| **y == v1[x]).count();
                    let c2 = v2.iter().take(n2).filter(|y| **y == v1[x]).count();
                    if c1 != c2 {
                        return 0;
                    }
                }
                x += 1;
            }
            if t.get(&ky).rm_clock != t2.get(&ky).rm_clock {
                return 0;
            }
            ky += 1;
        }
        if t.read_ctx().add_clock != t2.read_ctx().add_clock {
            return 0;
        }
        vtrace!("T2 (swap {} = {}) = {:?}", sw, can_swap, t2);
        if t != t2 {
            return 0;
        }
        return if can_swap { 3 } else { 1 };
    }
    // oracle from the observation sets
    let removed = |u: usize| {
        let mut r = false;
        let mut x = 0;
        while x < NW {
            if is_rm[x] && key[x] == key[u] && x != u && (obs[x] >> u) & 1 == 1 {
                r = true;
            }
            x += 1;
        }
        r
    };
    let superseded = |u: usize| {
        let mut r = false;
        let mut x = 0;
        while x < NW {
            if !is_rm[x] && key[x] == key[u] && x != u && (obs[x] >> u) & 1 == 1 {
                r = true;
            }
            x += 1;
        }
        r
    };
    let mut any_removed = false;
    let mut ky = 0u8;
    while ky < NKEY {
        let (present, vs, n) = vals_of(&t, ky);
        let mut want_present = false;
        let mut want_n = 0usize;
        let mut u = 0;
        while u < NW {
            if !is_rm[u] && key[u] == ky {
                if !removed(u) {
                    want_present = true;
                } else {
                    any_removed = true;
                }
                let shown = !removed(u) && !superseded(u);
                let got = vs.iter().take(n).filter(|y| **y == 10 + u as u8).count();
                if slice == 2 && got != (shown as usize) {
                    // role of the known finding: the value's own dot is covered by the remove, but the context it
                    // was written with also mentions dots the remove context does not cover (map-wide clock)
                    if removed(u) && got == 1 {
                        return 205;
                    }
                    return 0;
                }
                if shown {
                    want_n += 1;
                }
            }
            u += 1;
        }
        if slice == 1 && present != want_present {
            return 0;
        }
        if slice == 2 && present && n != want_n {
            return 0;
        }
        ky += 1;
    }
    if any_removed {
        4
    } else {
        1
    }
}


//@ harness props=C20,C01,C05 kf=206 unwind=10 name=Map<MVReg> remove vs concurrent overwrite: one actor writes key k, a second removes k having seen that write, a third overwrites k having seen the write but not the remove; both causal delivery orders must give the same reads (C01, C05) and == replicas (C20)
#[no_mangle]
pub fn h_mapmv_rm_vs_write(inp: &Inp) -> u8 {
    let mut i = In::new(inp);
    let a0 = i.below(NA);
    let a1 = i.below(NA);
    let a2 = i.below(NA);
    let ky = i.below(NKEY);
    let g0 = i.bool();
    let g2 = i.bool();
    i.assume(a1 != a2);
    if !i.ok {
        return 2;
    }
    let mut r0: M = Map::new();
    let c0 = if g0 { r0.get(&ky).derive_add_ctx(a0) } else { r0.read_ctx().derive_add_ctx(a0) };
    let u = r0.update(ky, c0, |reg, c| reg.write(10, c));
    r0.apply(u.clone());
    let mut r1 = r0.clone();
    let mut r2 = r0.clone();
    let rm = r1.rm(ky, r1.get(&ky).derive_rm_ctx());
    r1.apply(rm.clone());
    let c2 = if g2 { r2.get(&ky).derive_add_ctx(a2) } else { r2.read_ctx().derive_add_ctx(a2) };
    let w = r2.update(ky, c2, |reg, c| reg.write(12, c));
    r2.apply(w.clone());
    vtrace!("u = {:?}", u);
    vtrace!("rm = {:?}", rm);
    vtrace!("w = {:?}", w);
    // T: u, rm, w      T2: u, w, rm   (both causal)
    let mut t = r0.clone();
    t.apply(rm.clone());
    t.apply(w.clone());
    let mut t2 = r0.clone();
    t2.apply(w);
    t2.apply(rm);
    vtrace!("T  = {:?}", t);
    vtrace!("T2 = {:?}", t2);
    // reads: the overwrite survives (the remover had not seen it), the removed write is gone
    let (p1, v1, n1) = vals_of(&t, ky);
    let (p2, v2, n2) = vals_of(&t2, ky);
    if !p1 || !p2 || n1 != 1 || n2 != 1 || v1[0] != 12 || v2[0] != 12 {
        return 0;
    }
    if t.get(&ky).rm_clock != t2.get(&ky).rm_clock || t.get(&ky).add_clock != t2.get(&ky).add_clock {
        return 0;
    }
    if t.len().val != 1 || t2.len().val != 1 {
        return 0;
    }
    if t != t2 {
        // known finding (announced by C20): the hidden clock of the surviving value keeps or loses the dot of
        // the removed write depending on the order in which the remove and the overwrite arrive
        return 206;
    }
    1
}

//@ harness props=C05,C01 kf=205 unwind=10 name=Map<MVReg> remove after a write that had seen another key: X writes key p, Y (having seen it) writes key q, Z concurrently writes q, a replica that has seen X's and Y's writes removes q; at a replica with all four ops q must show Z's value only (the remover had seen Y's value)
#[no_mangle]
pub fn h_mapmv_other_key(inp: &Inp) -> u8 {
    let mut i = In::new(inp);
    let ax = i.below(NA);
    let ay = i.below(NA);
    let az = i.below(NA);
    let ar = i.below(NA);
    let p = i.below(NKEY);
    let q = i.below(NKEY);
    let z_saw_x = i.bool();
    let order = i.below(3);
    i.assume(ax != ay && ay != az && ax != az);
    i.assume(ar != az);
    if !i.ok {
        return 2;
    }
    // X writes key p
    let mut rx: M = Map::new();
    let ux = rx.update(p, rx.read_ctx().derive_add_ctx(ax), |reg, c| reg.write(10, c));
    rx.apply(ux.clone());
    // Y has seen it and writes key q
    let mut ry = rx.clone();
    let uy = ry.update(q, ry.read_ctx().derive_add_ctx(ay), |reg, c| reg.write(11, c));
    ry.apply(uy.clone());
    // Z writes key q concurrently with Y (it may have seen X)
    let mut rz: M = if z_saw_x { rx.clone() } else { Map::new() };
    let uz = rz.update(q, rz.read_ctx().derive_add_ctx(az), |reg, c| reg.write(12, c));
    rz.apply(uz.clone());
    // the remover (X's or Y's replica, or a third one) has seen ux and uy, not uz, and removes q
    let mut rr = ry.clone();
    let rm = rr.rm(q, rr.get(&q).derive_rm_ctx());
    let _ = ar;
    rr.apply(rm.clone());
    vtrace!("ux = {:?}", ux);
    vtrace!("uy = {:?}", uy);
    vtrace!("uz = {:?}", uz);
    vtrace!("rm = {:?}", rm);
    // T receives everything in one of three causal orders
    let mut t: M = Map::new();
    if order == 0 {
        t.apply(ux);
        t.apply(uy);
        t.apply(uz);
        t.apply(rm);
    } else if order == 1 {
        t.apply(ux);
        t.apply(uy);
        t.apply(rm);
        t.apply(uz);
    } else {
        if z_saw_x {
            t.apply(ux.clone());
        }
        t.apply(uz);
        t.apply(ux);
        t.apply(uy);
        t.apply(rm);
    }
    vtrace!("T = {:?}", t);
    let (present, vs, n) = vals_of(&t, q);
    if !present {
        return 0; // Z's concurrent write must keep the key alive
    }
    let has12 = vs.iter().take(n).filter(|y| **y == 12).count();
    let has11 = vs.iter().take(n).filter(|y| **y == 11).count();
    let has10 = vs.iter().take(n).filter(|y| **y == 10).count();
    if has12 != 1 {
        return 0;
    }
    if p == q {
        // same key: Y's write had observed X's, the remover had seen both: only Z's value may remain
        if has10 != 0 {
            return 0;
        }
    } else if has10 != 0 {
        return 0;
    }
    if has11 != 0 {
        // known finding (announced by C05): the value written by Y carries X's dot of ANOTHER key in its context,
        // the remove context (the entry clock of q) does not cover it, so the value outlives the remove
        if p != q {
            return 205;
        }
        return 0;
    }
    1
}
