//! MVReg: declarative specification and inductive lemmas (C06; also C01, C02, C03, C08, C09, C18, C20).
//!
//! Universe `U`: `NW` writes; write `j` is made by actor `act[j]` on a replica whose knowledge is the
//! write set `obs[j]` (any subset of the earlier writes that contains the actor's own earlier writes:
//! a replica applies what it generates). Its context clock is what the API derives there:
//! `read().derive_add_ctx(actor)`, i.e. the join of the clocks of `obs[j]` with the actor's entry bumped.
//! Knowledge `K`: ANY subset of the writes (no delivery-order assumption at all).
//! `SPEC(U,K)`: one value per write of `K` whose dot is not covered by the clock of another write of `K`.
use super::common::*;
use crate::ctx::ReadCtx;
use crate::mvreg::vaccess as acc;
use crate::mvreg::{MVReg, Op};
use crate::{CmRDT, CvRDT, ResetRemove, VClock};

pub const NW: usize = 3;
const NAU: usize = NA as usize;
pub type Reg = MVReg<u8, u8>;

#[derive(Clone, Debug)]
pub struct Uni {
    pub act: [u8; NW],
    pub val: [u8; NW],
    pub obs: [u8; NW],          // bit i: write i (< j) was known to the author of j
    pub clk: [[u64; NAU]; NW],  // derived: the context clock of write j
}

pub fn any_uni(i: &mut In) -> Uni {
    let mut u = Uni { act: [0; NW], val: [0; NW], obs: [0; NW], clk: [[0; NAU]; NW] };
    let mut j = 0;
    while j < NW {
        u.act[j] = i.below(NA);
        u.val[j] = i.below(NV);
        let m = i.below(1 << NW);
        // only earlier writes can have been observed, and one's own earlier writes always are
        i.assume(m >> j == 0);
        let mut x = 0;
        while x < j {
            if u.act[x] == u.act[j] {
                i.assume((m >> x) & 1 == 1);
            }
            x += 1;
        }
        u.obs[j] = m;
        // clock = join of observed clocks, author's entry + 1
        let mut a = 0;
        while a < NAU {
            let mut c = 0u64;
            let mut x = 0;
            while x < j {
                if (m >> x) & 1 == 1 && u.clk[x][a] > c {
                    c = u.clk[x][a];
                }
                x += 1;
            }
            if a as u8 == u.act[j] {
                c += 1;
            }
            u.clk[j][a] = c;
            a += 1;
        }
        j += 1;
    }
    vtrace!("universe {:?}", u);
    u
}

/// clock of j <= clock of i (pointwise)
fn cle(u: &Uni, j: usize, i: usize) -> bool {
    let mut r = true;
    let mut a = 0;
    while a < NAU {
        if u.clk[j][a] > u.clk[i][a] {
            r = false;
        }
        a += 1;
    }
    r
}

/// write j is shown under knowledge mask k: applied and not observed by another applied write
pub fn shown(u: &Uni, k: u8, j: usize) -> bool {
    let mut dominated = false;
    let mut i = 0;
    while i < NW {
        if i != j && (k >> i) & 1 == 1 && cle(u, j, i) && !cle(u, i, j) {
            dominated = true;
        }
        i += 1;
    }
    (k >> j) & 1 == 1 && !dominated
}

const PERMS: [[usize; 3]; 6] = [[0, 1, 2], [0, 2, 1], [1, 0, 2], [1, 2, 0], [2, 0, 1], [2, 1, 0]];

/// SPEC(U,K) with the kept values stored in the order given by permutation `p` (the real Vec order
/// depends on arrival order; nothing may depend on it)
pub fn spec(u: &Uni, k: u8, p: u8) -> Reg {
    let mut vals: Vec<(Vc, u8)> = Vec::new();
    let mut pos = 0;
    while pos < NW {
        let j = PERMS[p as usize][pos];
        if shown(u, k, j) {
            vals.push((vc_from(|a| u.clk[j][a as usize]), u.val[j]));
        }
        pos += 1;
    }
    acc::from_vals(vals)
}

/// multiset equality of the stored (clock, value) pairs without going through `MVReg::eq` (whose
/// sanity assertion panics when a register holds two identical pairs)
pub fn mv_same(x: &Reg, y: &Reg) -> bool {
    let (a, b) = (acc::vals(x), acc::vals(y));
    let mut ok = a.len() == b.len();
    for e in a.iter() {
        if a.iter().filter(|d| *d == e).count() != b.iter().filter(|d| *d == e).count() {
            ok = false;
        }
    }
    ok
}

fn put(u: &Uni, j: usize) -> Op<u8, u8> {
    Op::Put { clock: vc_from(|a| u.clk[j][a as usize]), val: u.val[j] }
}

/// join of the clocks of all writes in k
fn kclock(u: &Uni, k: u8, a: usize) -> u64 {
    let mut c = 0;
    let mut j = 0;
    while j < NW {
        if (k >> j) & 1 == 1 && u.clk[j][a] > c {
            c = u.clk[j][a];
        }
        j += 1;
    }
    c
}

//@ harness props=C06,C07,C01 covers=3,4 name=MVReg reads + op generation: on SPEC(U,K) read() returns exactly the values of the causally-maximal applied writes (as a multiset) with the join of all applied clocks as context; write(read().derive_add_ctx(a)) carries exactly the universe clock
#[no_mangle]
pub fn h_mvreg_reads(inp: &Inp) -> u8 {
    let mut i = In::new(inp);
    let u = any_uni(&mut i);
    let k = i.below(1 << NW);
    let p = i.below(6);
    let j = i.below(NW as u8) as usize;
    if !i.ok {
        return 2;
    }
    let s = spec(&u, k, p);
    let rd = s.read();
    // multiset of values: for every value v, #occurrences == #shown writes with that value
    let mut v = 0u8;
    let mut nshown = 0usize;
    let mut eqvals = false;
    while v < NV {
        let mut want = 0usize;
        let mut x = 0;
        while x < NW {
            if shown(&u, k, x) && u.val[x] == v {
                want += 1;
            }
            x += 1;
        }
        let got = rd.val.iter().filter(|y| **y == v).count();
        if got != want {
            return 0;
        }
        if want > 1 {
            eqvals = true;
        }
        nshown += want;
        v += 1;
    }
    if rd.val.len() != nshown {
        return 0;
    }
    if !vc_is(&rd.add_clock, |a| kclock(&u, k, a as usize)) || !vc_is(&rd.rm_clock, |a| kclock(&u, k, a as usize)) {
        return 0;
    }
    let rc = s.read_ctx();
    if rc.add_clock != rd.add_clock || rc.rm_clock != rd.rm_clock {
        return 0;
    }
    // op generation by the author of write j on a replica that knows exactly obs[j]
    let author = spec(&u, u.obs[j], p);
    let ctx = author.read().derive_add_ctx(u.act[j]);
    if ctx.dot.actor != u.act[j] || ctx.dot.counter != u.clk[j][u.act[j] as usize] {
        return 0;
    }
    let op = author.write(u.val[j], ctx);
    if op != put(&u, j) {
        return 0;
    }
    if eqvals {
        3 // concurrent writes of equal values are both kept
    } else if nshown == 0 && k != 0 {
        0 // something applied but nothing shown: impossible
    } else if nshown > 1 {
        4
    } else {
        1
    }
}

//@ harness props=C06,C01,C08,C09,C16,C20 covers=3,4,5 name=MVReg L_apply / L_dup: applying any write (new, duplicate, superseded, out of causal order) to SPEC(U,K) gives SPEC(U,K+w)
#[no_mangle]
pub fn h_mvreg_apply(inp: &Inp) -> u8 {
    let mut i = In::new(inp);
    let u = any_uni(&mut i);
    let k = i.below(1 << NW);
    let p = i.below(6);
    let q = i.below(6);
    let j = i.below(NW as u8) as usize;
    if !i.ok {
        return 2;
    }
    if Reg::new() != spec(&u, 0, p) {
        return 0;
    }
    let mut s = spec(&u, k, p);
    let op = put(&u, j);
    if s.validate_op(&op).is_err() {
        return 0;
    }
    s.apply(op);
    let k2 = k | (1 << j);
    if s != spec(&u, k2, q) {
        return 0;
    }
    if (k >> j) & 1 == 1 {
        3 // duplicate
    } else if !shown(&u, k2, j) {
        4 // arrives after a write that had observed it: never shown
    } else if (k & u.obs[j]) != u.obs[j] {
        5 // overtakes writes it had observed (non-causal delivery)
    } else {
        1
    }
}

//@ harness props=C06,C01,C09,C20 covers=3,4 name=MVReg apply on three concurrent stored values (one per actor, any counters, any stored order): a fourth write that observed any subset of them replaces exactly the observed ones; read() and the read context follow; re-delivery is a no-op
#[no_mangle]
pub fn h_mvreg_apply_3conc(inp: &Inp) -> u8 {
    let mut i = In::new(inp);
    // stored value j: written by actor j as its c[j]-th write, nothing else observed
    let mut c = [0u64; 3];
    let mut v = [0u8; 3];
    let mut j = 0;
    while j < 3 {
        c[j] = 1 + i.below(NC as u8) as u64;
        v[j] = i.below(NV);
        j += 1;
    }
    let p = i.below(6) as usize;
    let a = i.below(3) as usize;
    let m = i.below(8);
    let nv = i.below(NV);
    // the author always knows its own earlier write
    i.assume((m >> a) & 1 == 1);
    i.assume(NA >= 3);
    if !i.ok {
        return 2;
    }
    let mut vals: Vec<(Vc, u8)> = Vec::new();
    let mut pos = 0;
    while pos < 3 {
        let j = PERMS[p][pos];
        vals.push((vc_from(|x| if x as usize == j { c[j] } else { 0 }), v[j]));
        pos += 1;
    }
    let mut s: Reg = acc::from_vals(vals);
    // the context the API derives at an author that holds exactly the observed values
    let mut avals: Vec<(Vc, u8)> = Vec::new();
    let mut j = 0;
    while j < 3 {
        if (m >> j) & 1 == 1 {
            avals.push((vc_from(|x| if x as usize == j { c[j] } else { 0 }), v[j]));
        }
        j += 1;
    }
    let author: Reg = acc::from_vals(avals);
    let op = author.write(nv, author.read().derive_add_ctx(a as u8));
    let want_clock = |x: u8| {
        let xx = x as usize;
        let base = if xx < 3 && (m >> xx) & 1 == 1 { c[xx] } else { 0 };
        if xx == a { base + 1 } else { base }
    };
    match &op {
        Op::Put { clock, val } => {
            if !vc_is(clock, want_clock) || *val != nv {
                return 0;
            }
        }
    }
    if s.validate_op(&op).is_err() {
        return 0;
    }
    s.apply(op.clone());
    // expected: the unobserved stored values (in their stored order or any other) plus the new write
    let mut want: Vec<(Vc, u8)> = Vec::new();
    let mut j = 0;
    while j < 3 {
        if (m >> j) & 1 == 0 {
            want.push((vc_from(|x| if x as usize == j { c[j] } else { 0 }), v[j]));
        }
        j += 1;
    }
    want.push((vc_from(want_clock), nv));
    let w: Reg = acc::from_vals(want);
    if !mv_same(&s, &w) {
        return 0;
    }
    let r = s.read();
    if r.val.len() != acc::vals(&w).len() || !r.val.contains(&nv) {
        return 0;
    }
    if !vc_is(&r.add_clock, |x| {
        let xx = x as usize;
        let top = if xx < 3 { c[xx] } else { 0 };
        if xx == a { top + 1 } else { top }
    }) {
        return 0;
    }
    // re-delivery changes nothing
    s.apply(op);
    if !mv_same(&s, &w) {
        return 0;
    }
    if m == 7 {
        3 // the write supersedes all three stored values
    } else if m.count_ones() == 2 {
        4
    } else {
        1
    }
}

//@ harness props=C06,C02,C03,C09,C17,C20 covers=3,4 name=MVReg L_merge: merge(SPEC(U,K1), SPEC(U,K2)) == SPEC(U,K1 u K2), both directions, any stored order
#[no_mangle]
pub fn h_mvreg_merge(inp: &Inp) -> u8 {
    let mut i = In::new(inp);
    let u = any_uni(&mut i);
    let k1 = i.below(1 << NW);
    let k2 = i.below(1 << NW);
    let p = i.below(6);
    let q = i.below(6);
    if !i.ok {
        return 2;
    }
    let mut s = spec(&u, k1, p);
    let o = spec(&u, k2, q);
    if s.validate_merge(&o).is_err() {
        return 0;
    }
    s.merge(o);
    // the result is a function of K1 u K2 alone, so merge is commutative, associative and idempotent on
    // reachable states (all pairs (K1, K2) are quantified, including K1 = K2 and K2 subset of K1)
    if s != spec(&u, k1 | k2, p) {
        return 0;
    }
    if k1 | k2 == k1 {
        3 // stale or equal state absorbed
    } else if k1 & k2 != 0 {
        4 // overlapping knowledge
    } else {
        1
    }
}

//@ harness props=C01,C05,C18 covers=3 name=MVReg reset_remove(c) on SPEC(U,K): keeps exactly the values whose clock is not covered by c, with the covered dots subtracted; empty clock no-op; own clock empties; c1 then c2 = join; idempotent
#[no_mangle]
pub fn h_mvreg_reset_remove(inp: &Inp) -> u8 {
    let mut i = In::new(inp);
    let u = any_uni(&mut i);
    let k = i.below(1 << NW);
    let p = i.below(6);
    let c = any_vclock(&mut i);
    let c2 = any_vclock(&mut i);
    if !i.ok {
        return 2;
    }
    let s = spec(&u, k, p);
    let mut r = s.clone();
    r.reset_remove(&c);
    // expected: per shown write, clock minus covered entries; dropped if nothing is left
    let mut want: Vec<(Vc, u8)> = Vec::new();
    let mut pos = 0;
    let mut dropped = false;
    while pos < NW {
        let j = PERMS[p as usize][pos];
        if shown(&u, k, j) {
            let rest = vc_from(|a| if u.clk[j][a as usize] > vget(&c, a) { u.clk[j][a as usize] } else { 0 });
            if rest.is_empty() {
                dropped = true;
            } else {
                want.push((rest, u.val[j]));
            }
        }
        pos += 1;
    }
    if !mv_same(&r, &acc::from_vals(want)) {
        return 0;
    }
    let mut r2 = r.clone();
    r2.reset_remove(&c);
    if !mv_same(&r2, &r) {
        return 0;
    }
    let mut e = s.clone();
    e.reset_remove(&VClock::new());
    if !mv_same(&e, &s) {
        return 0;
    }
    let mut o = s.clone();
    o.reset_remove(&s.read_ctx().rm_clock);
    if !mv_same(&o, &Reg::new()) {
        return 0;
    }
    let mut a = s.clone();
    a.reset_remove(&c);
    a.reset_remove(&c2);
    let mut jn = c.clone();
    jn.merge(c2.clone());
    let mut b = s.clone();
    b.reset_remove(&jn);
    if !mv_same(&a, &b) {
        return 0;
    }
    if dropped {
        3
    } else {
        1
    }
}
