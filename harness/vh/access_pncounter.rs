//! access shim (child module of `pncounter`)
use super::PNCounter;
use crate::GCounter;
pub fn from_parts<A: Ord>(p: GCounter<A>, n: GCounter<A>) -> PNCounter<A> {
    PNCounter { p, n }
}
pub fn parts<A: Ord>(c: &PNCounter<A>) -> (&GCounter<A>, &GCounter<A>) {
    (&c.p, &c.n)
}
