//! C14 — identifiers form a strict total order that is dense and unique per insert (direct).
//! Symbolic identifiers: path depth 1..=ND, rationals in {-2, -1.5, .., 2}, markers 0..3; this includes
//! equal-rational siblings and prefix-related paths. Non-dyadic rationals are outside the claim.
use super::common::*;
use crate::identifier::vaccess as acc;
use crate::Identifier;
use core::cmp::Ordering;
use num::BigRational;

/// maximal path depth of an input identifier (results of `between` may be one deeper)
#[cfg(not(vthorough))]
const ND: usize = 2;
#[cfg(vthorough)]
const ND: usize = 3;
type Id = Identifier<u8>;

fn any_id(i: &mut In) -> (Id, [(i64, u8); ND], usize) {
    let d = 1 + i.below(ND as u8) as usize;
    let mut raw = [(0i64, 0u8); ND];
    let mut p: Vec<(BigRational, u8)> = Vec::new();
    let mut x = 0;
    while x < ND {
        let r = i.below(9) as i64 - 4; // halves
        let m = i.below(4);
        raw[x] = (r, m);
        if x < d {
            p.push((mk_rat(r, 1), m));
        }
        x += 1;
    }
    (acc::from_path(p), raw, d)
}

/// reference order: lexicographic on (rational, marker) nodes; on an equal common prefix the LONGER path
/// sorts first
fn ref_cmp(a: &[(i64, u8); ND], da: usize, b: &[(i64, u8); ND], db: usize) -> Ordering {
    let mut x = 0;
    let mut res = Ordering::Equal;
    let mut done = false;
    while x < ND {
        if !done {
            let ina = x < da;
            let inb = x < db;
            if ina && inb {
                if a[x] != b[x] {
                    res = if a[x] < b[x] { Ordering::Less } else { Ordering::Greater };
                    done = true;
                }
            } else if ina && !inb {
                res = Ordering::Less;
                done = true;
            } else if !ina && inb {
                res = Ordering::Greater;
                done = true;
            } else {
                done = true;
            }
        }
        x += 1;
    }
    res
}

//@ harness props=C14 bounds=thorough:big xcheck=1 covers=3,4 name=Identifier::cmp is the reference lexicographic order with the prefix rule; total, antisymmetric, consistent with ==, transitive on three identifiers
#[no_mangle]
pub fn h_c14_order(inp: &Inp) -> u8 {
    let mut i = In::new(inp);
    let (a, ra, da) = any_id(&mut i);
    let (b, rb, db) = any_id(&mut i);
    let (c, rc, dc) = any_id(&mut i);
    if !i.ok {
        return 2;
    }
    let ab = a.cmp(&b);
    if ab != ref_cmp(&ra, da, &rb, db) {
        return 0;
    }
    if b.cmp(&a) != ab.reverse() {
        return 0;
    }
    if (ab == Ordering::Equal) != (a == b) {
        return 0;
    }
    if a.partial_cmp(&b) != Some(ab) {
        return 0;
    }
    let bc = b.cmp(&c);
    let ac = a.cmp(&c);
    if ab != Ordering::Greater && bc != Ordering::Greater && ac == Ordering::Greater {
        return 0;
    }
    if ab == Ordering::Less && bc == Ordering::Less && ac != Ordering::Less {
        return 0;
    }
    if ab == Ordering::Equal && ac != bc {
        return 0;
    }
    if da != db && ab != Ordering::Equal && ra[0] == rb[0] {
        3 // prefix-related paths
    } else if ra[0].0 == rb[0].0 && ra[0].1 != rb[0].1 {
        4 // equal-rational siblings
    } else {
        1
    }
}

//@ harness props=C14,C13 bounds=thorough:big xcheck=1 covers=3,4,5 name=Identifier::between(low, high, marker) is strictly between two distinct identifiers for every marker (either argument order); with one bound it is strictly beyond it; value() is the marker
#[no_mangle]
pub fn h_c14_between(inp: &Inp) -> u8 {
    let mut i = In::new(inp);
    let (a, ra, da) = any_id(&mut i);
    let (b, rb, db) = any_id(&mut i);
    let m = i.below(4);
    if !i.ok {
        return 2;
    }
    vtrace!("a = {:?}  b = {:?}  marker = {}", a, b, m);
    let ord = a.cmp(&b);
    // one-sided
    let above = Id::between(Some(&a), None, m);
    if !(above > a) || *above.value() != m {
        return 0;
    }
    let below = Id::between(None, Some(&b), m);
    if !(below < b) || *below.value() != m {
        return 0;
    }
    let free = Id::between(None, None, m);
    if *free.value() != m {
        return 0;
    }
    if ord == Ordering::Equal {
        return 1;
    }
    let mid = Id::between(Some(&a), Some(&b), m);
    let (lo, hi) = if ord == Ordering::Less { (&a, &b) } else { (&b, &a) };
    if !(lo < &mid && &mid < hi) {
        return 0;
    }
    if *mid.value() != m {
        return 0;
    }
    // argument order does not matter
    if Id::between(Some(&b), Some(&a), m) != mid {
        return 0;
    }
    if ra[0].0 == rb[0].0 && ra[0].1 != rb[0].1 {
        3 // equal-rational siblings
    } else if da != db && ra[0] == rb[0] {
        4 // one path is a prefix of the other
    } else if acc::path(&mid).len() > 1 {
        5
    } else {
        1
    }
}
