//! access shim (child module of `gset`)
use super::GSet;
use std::collections::BTreeSet;
pub fn from_set<T: Ord>(value: BTreeSet<T>) -> GSet<T> {
    GSet { value }
}
pub fn set<T: Ord>(g: &GSet<T>) -> &BTreeSet<T> {
    &g.value
}
