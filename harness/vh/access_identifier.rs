//! access shim (child module of `identifier`)
use super::Identifier;
use num::BigRational;
pub fn from_path<T>(p: Vec<(BigRational, T)>) -> Identifier<T> {
    Identifier(p)
}
pub fn path<T>(i: &Identifier<T>) -> &Vec<(BigRational, T)> {
    &i.0
}
