//! C10 — VClock is a correct partial order with join, meet and forget (direct, no abstraction).
use super::common::*;
use crate::{CmRDT, CvRDT, Dot, ResetRemove, VClock};
use core::cmp::Ordering;

fn spec_cmp(a: &Vc, b: &Vc) -> Option<Ordering> {
    let ab = leq(a, b);
    let ba = leq(b, a);
    if ab && ba {
        Some(Ordering::Equal)
    } else if ab {
        Some(Ordering::Less)
    } else if ba {
        Some(Ordering::Greater)
    } else {
        None
    }
}

//@ harness props=C10 bounds=thorough:big xcheck=1 covers=3,4,5 name=partial_cmp is the pointwise order; concurrent iff neither dominates
#[no_mangle]
pub fn h_c10_cmp(inp: &Inp) -> u8 {
    let mut i = In::new(inp);
    let a = any_vclock(&mut i);
    let b = any_vclock(&mut i);
    if !i.ok {
        return 2;
    }
    let spec = spec_cmp(&a, &b);
    let got = a.partial_cmp(&b);
    if got != spec {
        return 0;
    }
    if a.concurrent(&b) != spec.is_none() {
        return 0;
    }
    if (a == b) != (spec == Some(Ordering::Equal)) {
        return 0;
    }
    // operator forms
    if (a <= b) != leq(&a, &b) || (a >= b) != leq(&b, &a) {
        return 0;
    }
    if (a < b) != (leq(&a, &b) && !leq(&b, &a)) {
        return 0;
    }
    match spec {
        None => 3,
        Some(Ordering::Less) => 4,
        Some(Ordering::Greater) => 5,
        Some(Ordering::Equal) => 1,
    }
}

//@ harness props=C10 bounds=thorough:big xcheck=1 name=order laws on three clocks: reflexive, antisymmetric, transitive
#[no_mangle]
pub fn h_c10_laws(inp: &Inp) -> u8 {
    let mut i = In::new(inp);
    let a = any_vclock(&mut i);
    let b = any_vclock(&mut i);
    let c = any_vclock(&mut i);
    if !i.ok {
        return 2;
    }
    if a.partial_cmp(&a) != Some(Ordering::Equal) {
        return 0;
    }
    if a <= b && b <= a && a != b {
        return 0;
    }
    if a <= b && b <= c && !(a <= c) {
        return 0;
    }
    if a < b && b < c && !(a < c) {
        return 0;
    }
    // antisymmetry of the reported orderings
    let ab = a.partial_cmp(&b);
    let ba = b.partial_cmp(&a);
    if ab.map(Ordering::reverse) != ba {
        return 0;
    }
    1
}

//@ harness props=C10 bounds=thorough:big xcheck=1 name=merge is the least upper bound, commutative and idempotent
#[no_mangle]
pub fn h_c10_merge(inp: &Inp) -> u8 {
    let mut i = In::new(inp);
    let a = any_vclock(&mut i);
    let b = any_vclock(&mut i);
    if !i.ok {
        return 2;
    }
    let mut m = a.clone();
    m.merge(b.clone());
    if !vc_is(&m, |x| core::cmp::max(vget(&a, x), vget(&b, x))) {
        return 0;
    }
    let mut m2 = b.clone();
    m2.merge(a.clone());
    if m != m2 {
        return 0;
    }
    let mut m3 = m.clone();
    m3.merge(a.clone());
    if m3 != m {
        return 0;
    }
    if !(m >= a && m >= b) {
        return 0;
    }
    1
}

//@ harness props=C10 bounds=thorough:big xcheck=1 name=glb is the greatest lower bound and stores no zero
#[no_mangle]
pub fn h_c10_glb(inp: &Inp) -> u8 {
    let mut i = In::new(inp);
    let a = any_vclock(&mut i);
    let b = any_vclock(&mut i);
    if !i.ok {
        return 2;
    }
    let mut g = a.clone();
    g.glb(&b);
    if !vc_is(&g, |x| core::cmp::min(vget(&a, x), vget(&b, x))) {
        return 0;
    }
    let mut g2 = b.clone();
    g2.glb(&a);
    if g != g2 {
        return 0;
    }
    if !(g <= a && g <= b) {
        return 0;
    }
    1
}

//@ harness props=C10,C18 bounds=thorough:big xcheck=1 name=reset_remove(c) keeps exactly the entries strictly newer than c
#[no_mangle]
pub fn h_c10_reset_remove(inp: &Inp) -> u8 {
    let mut i = In::new(inp);
    let a = any_vclock(&mut i);
    let c = any_vclock(&mut i);
    let c2 = any_vclock(&mut i);
    if !i.ok {
        return 2;
    }
    let mut r = a.clone();
    r.reset_remove(&c);
    if !vc_is(&r, |x| if vget(&a, x) > vget(&c, x) { vget(&a, x) } else { 0 }) {
        return 0;
    }
    // clone_without is the same thing
    if a.clone_without(&c) != r {
        return 0;
    }
    // idempotent
    let mut r2 = r.clone();
    r2.reset_remove(&c);
    if r2 != r {
        return 0;
    }
    // c then c2 == join(c, c2)
    let mut s1 = a.clone();
    s1.reset_remove(&c);
    s1.reset_remove(&c2);
    let mut j = c.clone();
    j.merge(c2.clone());
    let mut s2 = a.clone();
    s2.reset_remove(&j);
    if s1 != s2 {
        return 0;
    }
    // empty clock: no-op; own clock: empties
    let mut e = a.clone();
    e.reset_remove(&VClock::new());
    if e != a {
        return 0;
    }
    let mut o = a.clone();
    o.reset_remove(&a);
    if !o.is_empty() {
        return 0;
    }
    if r.is_empty() != leq(&a, &c) {
        return 0;
    }
    1
}

//@ harness props=C10 bounds=thorough:big xcheck=1 name=intersection keeps exactly the equal entries
#[no_mangle]
pub fn h_c10_intersection(inp: &Inp) -> u8 {
    let mut i = In::new(inp);
    let a = any_vclock(&mut i);
    let b = any_vclock(&mut i);
    if !i.ok {
        return 2;
    }
    let x = VClock::intersection(&a, &b);
    if !vc_is(&x, |k| if vget(&a, k) == vget(&b, k) { vget(&a, k) } else { 0 }) {
        return 0;
    }
    if VClock::intersection(&b, &a) != x {
        return 0;
    }
    1
}

//@ harness props=C10,C16 bounds=thorough:big xcheck=1 covers=3,4 name=apply / inc / validate_op / get / dot on an arbitrary clock and dot
#[no_mangle]
pub fn h_c10_apply(inp: &Inp) -> u8 {
    let mut i = In::new(inp);
    let a = any_vclock(&mut i);
    let act = i.below(NA);
    let ctr = i.below(NC as u8 + 2) as u64; // up to NC+1 so that a skipping dot exists
    if !i.ok {
        return 2;
    }
    let cur = vget(&a, act);
    if a.get(&act) != cur {
        return 0;
    }
    let d0 = a.dot(act);
    if d0.actor != act || d0.counter != cur {
        return 0;
    }
    let nx = a.inc(act);
    if nx.actor != act || nx.counter != cur + 1 {
        return 0;
    }
    // validate_op accepts iff the dot does not skip a counter
    let d = Dot::new(act, ctr);
    let ok = a.validate_op(&d).is_ok();
    if ok != (ctr <= cur + 1) {
        return 0;
    }
    if let Err(e) = a.validate_op(&d) {
        if e.actor != act || e.counter_range.start != cur + 1 || e.counter_range.end != ctr {
            return 0;
        }
    }
    // apply keeps the max, monotone, never stores zero
    let mut r = a.clone();
    r.apply(d.clone());
    if !vc_is(&r, |x| if x == act { core::cmp::max(cur, ctr) } else { vget(&a, x) }) {
        return 0;
    }
    if !(r >= a) {
        return 0;
    }
    // applying inc() is strictly greater
    let mut r2 = a.clone();
    r2.apply(nx);
    if !(r2 > a) {
        return 0;
    }
    // re-applying is a no-op
    let mut r3 = r.clone();
    r3.apply(d);
    if r3 != r {
        return 0;
    }
    if ctr == 0 {
        3
    } else if ctr > cur + 1 {
        4
    } else {
        1
    }
}

//@ harness props=C10 bounds=thorough:big xcheck=1 name=From<Dot>, FromIterator, iter, is_empty agree with the pointwise view
#[no_mangle]
pub fn h_c10_ctor(inp: &Inp) -> u8 {
    let mut i = In::new(inp);
    let a1 = i.below(NA);
    let c1 = i.below(NC as u8 + 1) as u64;
    let a2 = i.below(NA);
    let c2 = i.below(NC as u8 + 1) as u64;
    let a = any_vclock(&mut i);
    if !i.ok {
        return 2;
    }
    let v: Vc = Dot::new(a1, c1).into();
    if !vc_is(&v, |x| if x == a1 { c1 } else { 0 }) {
        return 0;
    }
    let w: Vc = [Dot::new(a1, c1), Dot::new(a2, c2)].into_iter().collect();
    if !vc_is(&w, |x| {
        let p = if x == a1 { c1 } else { 0 };
        let q = if x == a2 { c2 } else { 0 };
        core::cmp::max(p, q)
    }) {
        return 0;
    }
    // iter yields exactly the stored dots
    let mut n = 0usize;
    for d in a.iter() {
        if vget(&a, *d.actor) != d.counter || d.counter == 0 {
            return 0;
        }
        n += 1;
    }
    let mut cnt = 0usize;
    let mut x = 0u8;
    while x < NA {
        if vget(&a, x) > 0 {
            cnt += 1;
        }
        x += 1;
    }
    if n != cnt || a.is_empty() != (cnt == 0) {
        return 0;
    }
    // into_iter round trip
    let back: Vc = a.clone().into_iter().collect();
    if back != a {
        return 0;
    }
    1
}

//@ harness props=C10 bounds=thorough:big xcheck=1 covers=3 name=Dot partial order relates dots of one actor only
#[no_mangle]
pub fn h_c10_dot(inp: &Inp) -> u8 {
    let mut i = In::new(inp);
    let a1 = i.below(NA);
    let c1 = i.u8() as u64;
    let a2 = i.below(NA);
    let c2 = i.u8() as u64;
    if !i.ok {
        return 2;
    }
    let d1 = Dot::new(a1, c1);
    let d2 = Dot::new(a2, c2);
    let spec = if a1 == a2 { Some(c1.cmp(&c2)) } else { None };
    if d1.partial_cmp(&d2) != spec {
        return 0;
    }
    if (d1 == d2) != (a1 == a2 && c1 == c2) {
        return 0;
    }
    let n = d1.inc();
    if n.actor != a1 || n.counter != c1 + 1 {
        return 0;
    }
    if spec.is_none() {
        3
    } else {
        1
    }
}

//@ harness props=C07 bounds=thorough:big covers=3 name=ReadCtx derivations on arbitrary contexts (rm_clock <= add_clock, as every read hands out): derive_add_ctx(a) carries a's next unused dot and a clock that covers everything the reader saw plus that dot; derive_rm_ctx is exactly the remove context; split keeps both clocks
#[no_mangle]
pub fn h_c07_ctx_derive(inp: &Inp) -> u8 {
    use crate::ctx::ReadCtx;
    let mut i = In::new(inp);
    let add = any_vclock(&mut i);
    let rm = any_vclock(&mut i);
    let a = i.below(NA);
    i.assume(leq(&rm, &add));
    if !i.ok {
        return 2;
    }
    let mk = || ReadCtx { add_clock: add.clone(), rm_clock: rm.clone(), val: 7u8 };
    let actx = mk().derive_add_ctx(a);
    if actx.dot.actor != a || actx.dot.counter != vget(&add, a) + 1 {
        return 0;
    }
    if !vc_is(&actx.clock, |x| if x == a { vget(&add, x) + 1 } else { vget(&add, x) }) {
        return 0;
    }
    // fresh: the reader had not seen the dot, and the derived clock covers the whole add context
    if add.get(&a) >= actx.dot.counter || !leq(&add, &actx.clock) {
        return 0;
    }
    let rctx = mk().derive_rm_ctx();
    if !vc_is(&rctx.clock, |x| vget(&rm, x)) {
        return 0;
    }
    let (v, rest) = mk().split();
    if v != 7 || !vc_is(&rest.add_clock, |x| vget(&add, x)) || !vc_is(&rest.rm_clock, |x| vget(&rm, x)) {
        return 0;
    }
    // a context derived from the split remainder is the same
    let actx2 = rest.derive_add_ctx(a);
    if actx2.dot != actx.dot || actx2.clock != actx.clock {
        return 0;
    }
    if rm != add {
        3 // per-element read: the remove context is strictly smaller than the add context
    } else {
        1
    }
}
