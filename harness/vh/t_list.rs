//! List / GList: bounded symbolic histories through the public API (C12, C13; also C01, C09, C16).
//!
//! `NW` ops; op `k` is issued by actor `act[k]` on that actor's own replica, which has applied its own
//! earlier ops plus a causally closed symbolic subset `obs[k]` of the earlier ops of others. Every op is
//! produced by the real `insert_index` / `delete_index` on the author's state (symbolic index, clamped).
//! Replica `T` then applies all ops in issue order, replica `T2` in another causal order (a symbolic
//! swap of adjacent concurrent ops) with a symbolic duplicate.
use super::common::*;
use crate::list::{List, Op};
use crate::{CmRDT, GList, CvRDT};

pub const NW: usize = 3;
type L = List<u8, u8>;

fn seq(l: &L) -> ([u8; 4], usize) {
    let mut out = [0u8; 4];
    let mut n = 0;
    for v in l.iter() {
        if n < 4 {
            out[n] = *v;
        }
        n += 1;
    }
    (out, n)
}

/// position of value v in a sequence (NW = not present)
fn pos(s: &([u8; 4], usize), v: u8) -> usize {
    let mut p = 9;
    let mut x = 0;
    while x < 4 {
        if x < s.1 && s.0[x] == v && p == 9 {
            p = x;
        }
        x += 1;
    }
    p
}

fn count(s: &([u8; 4], usize), v: u8) -> usize {
    let mut c = 0;
    let mut x = 0;
    while x < 4 {
        if x < s.1 && s.0[x] == v {
            c += 1;
        }
        x += 1;
    }
    c
}

/// common elements of two sequences appear in the same relative order
fn same_relative_order(a: &([u8; 4], usize), b: &([u8; 4], usize)) -> bool {
    let mut ok = true;
    let mut x = 0u8;
    while x < NW as u8 + 1 {
        let mut y = 0u8;
        while y < NW as u8 + 1 {
            let (v, w) = (10 + x, 10 + y);
            let (pa, qa, pb, qb) = (pos(a, v), pos(a, w), pos(b, v), pos(b, w));
            if x != y && pa != 9 && qa != 9 && pb != 9 && qb != 9 && (pa < qa) != (pb < qb) {
                ok = false;
            }
            y += 1;
        }
        x += 1;
    }
    ok
}

//@ disabled-harness (3-op version: 60 s of symbolic execution, queries exceed the solver cap) props=C12,C13 name=List bounded history (3 ops by up to 3 actors, concurrent siblings, deletes): insert_index lands at the clamped index and delete_index removes the i-th element on the author; all replicas keep one relative order, no duplicates; two causal delivery orders with a duplicate give == replicas
#[no_mangle]
pub fn h_list_hist(inp: &Inp) -> u8 {
    let mut i = In::new(inp);
    let mut reps: [L; 3] = [List::new(), List::new(), List::new()];
    let mut ops: Vec<Op<u8, u8>> = Vec::new();
    let mut act = [0usize; NW];
    let mut obs = [0u8; NW];
    let mut is_del = [false; NW];
    let mut ok = true;
    let mut deleted_some = false;
    let mut k = 0;
    while k < NW {
        let a = i.below(NA) as usize;
        let m = i.below(1 << NW);
        let del = i.bool();
        let ix = i.below(4) as usize;
        act[k] = a;
        // causally closed observation set over earlier ops
        i.assume(m >> k == 0);
        let mut j = 0;
        while j < k {
            if (m >> j) & 1 == 1 {
                i.assume(obs[j] & !m == 0);
            }
            if act[j] == a {
                i.assume((m >> j) & 1 == 1);
            }
            j += 1;
        }
        obs[k] = m | (1 << k);
        // bring the author's replica up to date with what it observed (issue order is causal)
        let mut j = 0;
        while j < k {
            if (m >> j) & 1 == 1 {
                let o = ops[j].clone();
                if reps[a].validate_op(&o).is_err() {
                    ok = false;
                }
                reps[a].apply(o);
            }
            j += 1;
        }
        let before = seq(&reps[a]);
        let val = 10 + k as u8;
        let op = if del && before.1 > 0 {
            i.assume(ix < before.1);
            is_del[k] = true;
            deleted_some = true;
            match reps[a].delete_index(ix, a as u8) {
                Some(o) => o,
                None => {
                    ok = false;
                    reps[a].append(val, a as u8)
                }
            }
        } else {
            reps[a].insert_index(ix, val, a as u8)
        };
        if reps[a].validate_op(&op).is_err() {
            ok = false;
        }
        reps[a].apply(op.clone());
        let after = seq(&reps[a]);
        // C13: sequential-list model on the author's replica
        if is_del[k] {
            if after.1 + 1 != before.1 {
                ok = false;
            }
            let mut x = 0;
            while x < 4 {
                if x < after.1 {
                    let want = if x < ix { before.0[x] } else { before.0[(x + 1) & 3] };
                    if after.0[x] != want {
                        ok = false;
                    }
                }
                x += 1;
            }
        } else {
            let at = if ix > before.1 { before.1 } else { ix };
            if after.1 != before.1 + 1 || (at < 4 && after.0[at & 3] != val) {
                ok = false;
            }
            let mut x = 0;
            while x < 4 {
                if x < after.1 && x != at {
                    let want = if x < at { before.0[x] } else { before.0[(x + 3) & 3] };
                    if after.0[x] != want {
                        ok = false;
                    }
                }
                x += 1;
            }
            if reps[a].position(at).copied() != Some(val) {
                ok = false;
            }
        }
        ops.push(op);
        k += 1;
    }
    let sw = i.below(NW as u8 - 1) as usize; // swap ops sw, sw+1 in the second schedule if concurrent
    let dup = i.below(NW as u8) as usize;
    if !i.ok {
        return 2;
    }
    // T: issue order. T2: adjacent swap (only if the later op did not observe the earlier) + a duplicate
    let mut t: L = List::new();
    let mut t2: L = List::new();
    let mut k = 0;
    while k < NW {
        if t.validate_op(&ops[k]).is_err() {
            ok = false;
        }
        t.apply(ops[k].clone());
        k += 1;
    }
    let can_swap = (obs[sw + 1] >> sw) & 1 == 0;
    let mut k = 0;
    while k < NW {
        let j = if can_swap && k == sw {
            sw + 1
        } else if can_swap && k == sw + 1 {
            sw
        } else {
            k
        };
        t2.apply(ops[j].clone());
        if j == dup {
            t2.apply(ops[j].clone());
        }
        k += 1;
    }
    if t != t2 {
        return 0;
    }
    let st = seq(&t);
    // every element at most once; one relative order across all replicas
    let mut v = 0u8;
    while v < NW as u8 {
        if count(&st, 10 + v) > 1 {
            ok = false;
        }
        v += 1;
    }
    let mut r = 0;
    while r < 3 {
        let sr = seq(&reps[r]);
        if !same_relative_order(&st, &sr) {
            ok = false;
        }
        r += 1;
    }
    // re-delivering everything changes nothing
    let mut t3 = t.clone();
    let mut k = 0;
    while k < NW {
        t3.apply(ops[k].clone());
        k += 1;
    }
    if t3 != t {
        ok = false;
    }
    if t.len() != st.1 {
        ok = false;
    }
    if !ok {
        return 0;
    }
    if can_swap && deleted_some {
        3
    } else if can_swap && st.1 == NW {
        4 // three concurrent-ish inserts all present
    } else if deleted_some {
        5
    } else {
        1
    }
}

//@ harness props=C16 covers=3 name=List validate_op: Ok for the next op of an actor and for duplicates, DotRange exactly when the op skips a counter of its actor
#[no_mangle]
pub fn h_list_validate_op(inp: &Inp) -> u8 {
    let mut i = In::new(inp);
    let a = i.below(NA);
    let ix1 = i.below(3) as usize;
    let ix2 = i.below(3) as usize;
    let ix3 = i.below(3) as usize;
    let skip = i.bool();
    if !i.ok {
        return 2;
    }
    let mut author: L = List::new();
    let op1 = author.insert_index(ix1, 10, a);
    author.apply(op1.clone());
    let op2 = author.insert_index(ix2, 11, a);
    author.apply(op2.clone());
    // the third op is an insert or a delete of the first element
    let op3 = if skip && ix3 == 0 {
        match author.delete_index(0, a) {
            Some(o) => o,
            None => return 0,
        }
    } else {
        author.insert_index(ix3, 12, a)
    };
    let mut r: L = List::new();
    if r.validate_op(&op1).is_err() {
        return 0;
    }
    // op2 before op1 is a gap; op3 before op2 as well
    if r.validate_op(&op2).is_ok() || r.validate_op(&op3).is_ok() {
        return 0;
    }
    r.apply(op1.clone());
    if r.validate_op(&op1).is_err() || r.validate_op(&op2).is_err() {
        return 0;
    }
    if r.validate_op(&op3).is_ok() {
        return 0;
    }
    if !skip {
        r.apply(op2.clone());
        if r.validate_op(&op3).is_err() || r.validate_op(&op1).is_err() {
            return 0;
        }
        return 1;
    }
    3
}

fn gseq(l: &GList<u8>) -> ([u8; 4], usize) {
    let mut out = [0u8; 4];
    let mut n = 0;
    for id in l.iter() {
        if n < 4 {
            out[n] = *id.value();
        }
        n += 1;
    }
    (out, n)
}

/// `s` with `v` inserted at index `at`
fn with_insert(s: &([u8; 4], usize), at: usize, v: u8) -> ([u8; 4], usize) {
    let mut out = [0u8; 4];
    let mut x = 0;
    while x < 4 {
        out[x] = if x < at { s.0[x] } else if x == at { v } else { s.0[(x + 3) & 3] };
        x += 1;
    }
    (out, s.1 + 1)
}

fn seq_eq(a: &([u8; 4], usize), b: &([u8; 4], usize)) -> bool {
    let mut ok = a.1 == b.1;
    let mut x = 0;
    while x < 4 {
        if x < a.1 && a.0[x] != b.0[x] {
            ok = false;
        }
        x += 1;
    }
    ok
}

//@ harness props=C13,C01,C02,C03,C09 covers=3,4 unwind=10 name=GList: two replicas insert concurrently (symbolic indices, distinct symbolic elements); merge is commutative and equals op delivery; on the merged state insert(i,x), insert_after(id,x), insert_before(id,x) land at i, right after and right before the identified element (Vec model), duplicates absorbed
#[no_mangle]
pub fn h_glist(inp: &Inp) -> u8 {
    let mut i = In::new(inp);
    let mut e = [0u8; 4];
    let mut x = 0;
    while x < 4 {
        e[x] = i.below(6);
        let mut y = 0;
        while y < x {
            i.assume(e[y] != e[x]);
            y += 1;
        }
        x += 1;
    }
    let share = i.bool();
    let ib = i.below(2) as usize;
    let mode = i.below(3);
    let at = i.below(4) as usize;
    if !i.ok {
        return 2;
    }
    let mut a: GList<u8> = GList::new();
    let mut b: GList<u8> = GList::new();
    let op1 = a.insert(0, e[0]);
    a.apply(op1.clone());
    if share {
        b.apply(op1.clone());
    }
    let ibc = if ib > b.len() { b.len() } else { ib };
    let opb = b.insert(ibc, e[2]);
    b.apply(opb.clone());
    // local Vec model on b
    let sb = gseq(&b);
    if share {
        if sb.1 != 2 || sb.0[ibc] != e[2] || sb.0[1 - ibc] != e[0] {
            return 0;
        }
    } else if sb.1 != 1 || sb.0[0] != e[2] {
        return 0;
    }
    // merge both ways == op delivery
    let mut m = a.clone();
    if m.validate_merge(&b).is_err() {
        return 0;
    }
    m.merge(b.clone());
    let mut m2 = b.clone();
    m2.merge(a.clone());
    if m != m2 {
        return 0;
    }
    let mut m3 = a.clone();
    m3.apply(opb.clone());
    m3.apply(op1.clone()); // duplicate
    if m3 != m {
        return 0;
    }
    let mut m4 = m.clone();
    m4.merge(a.clone()); // stale state
    if m4 != m {
        return 0;
    }
    let s = gseq(&m);
    if s.1 != 2 || pos(&s, e[0]) == 9 || pos(&s, e[2]) == 9 {
        return 0;
    }
    // b's local order is kept by the merge
    if share && (pos(&s, e[2]) < pos(&s, e[0])) != (ibc == 0) {
        return 0;
    }
    i.assume(at <= s.1);
    // index semantics on the merged state
    let (op, want_at) = if mode == 0 {
        (m.insert(at.min(s.1), e[3]), at.min(s.1))
    } else {
        let j = if at >= s.1 { s.1 - 1 } else { at };
        let id = m.get(j).cloned();
        if mode == 1 {
            (m.insert_after(id.as_ref(), e[3]), j + 1)
        } else {
            (m.insert_before(id.as_ref(), e[3]), j)
        }
    };
    if m.validate_op(&op).is_err() {
        return 0;
    }
    m.apply(op);
    if !seq_eq(&gseq(&m), &with_insert(&s, want_at, e[3])) {
        return 0;
    }
    if !share {
        3 // fully concurrent replicas
    } else if mode != 0 {
        4
    } else {
        1
    }
}


//@ disabled-harness (unsliced version: the solver does not finish; superseded by h_list_hist3) props=C12,C13 name=List bounded history: two ops by two actors (concurrent or causally ordered, insert or delete), delivered in both causal orders with a duplicate, then a third insert/delete at a symbolic index on the converged replica: same sequence everywhere, one relative order, no duplicates, edits land at the clamped index (Vec model) also next to concurrent siblings
#[no_mangle]
pub fn h_list_hist2(inp: &Inp) -> u8 {
    let mut i = In::new(inp);
    let a0 = i.below(NA);
    let a1 = i.below(NA);
    let saw = i.bool();
    let del1 = i.bool();
    let ix1 = i.below(3) as usize;
    let a2 = i.below(NA);
    let del2 = i.bool();
    let ix2 = i.below(4) as usize;
    let dup = i.bool();
    i.assume(a0 != a1 || saw);
    i.assume(!del1 || saw);
    if !i.ok {
        return 2;
    }
    let mut r0: L = List::new();
    let op0 = r0.insert_index(0, 10, a0);
    if r0.validate_op(&op0).is_err() {
        return 0;
    }
    r0.apply(op0.clone());
    // author of op1: its own replica (r0 itself when it is the same actor)
    let mut r1: L = if saw { r0.clone() } else { List::new() };
    let before1 = seq(&r1);
    let op1 = if del1 {
        match r1.delete_index(0, a1) {
            Some(o) => o,
            None => return 0,
        }
    } else {
        r1.insert_index(ix1, 11, a1)
    };
    if r1.validate_op(&op1).is_err() {
        return 0;
    }
    r1.apply(op1.clone());
    let after1 = seq(&r1);
    if del1 {
        if after1.1 != 0 {
            return 0;
        }
    } else {
        let at = if ix1 > before1.1 { before1.1 } else { ix1 };
        if !seq_eq(&after1, &with_insert(&before1, at, 11)) {
            return 0;
        }
    }
    // T: issue order; T2: the other causal order when the ops are concurrent, with a duplicate
    let mut t: L = List::new();
    if t.validate_op(&op0).is_err() {
        return 0;
    }
    t.apply(op0.clone());
    if t.validate_op(&op1).is_err() {
        return 0;
    }
    t.apply(op1.clone());
    let mut t2: L = List::new();
    if saw {
        t2.apply(op0.clone());
        if dup {
            t2.apply(op0.clone());
        }
        t2.apply(op1.clone());
    } else {
        t2.apply(op1.clone());
        t2.apply(op0.clone());
        if dup {
            t2.apply(op1.clone());
        }
    }
    if t != t2 {
        return 0;
    }
    // r1 catches up with what it missed
    r1.apply(op0.clone());
    if r1 != t {
        return 0;
    }
    let st = seq(&t);
    if count(&st, 10) > 1 || count(&st, 11) > 1 || st.1 != t.len() {
        return 0;
    }
    if !same_relative_order(&st, &after1) || !same_relative_order(&st, &seq(&r0)) {
        return 0;
    }
    // third edit on the converged replica by any actor
    let op2 = if del2 && st.1 > 0 {
        i.assume(ix2 < st.1);
        if !i.ok {
            return 2;
        }
        match t.delete_index(ix2, a2) {
            Some(o) => o,
            None => return 0,
        }
    } else {
        t.insert_index(ix2, 12, a2)
    };
    if t.validate_op(&op2).is_err() {
        return 0;
    }
    let is_del = del2 && st.1 > 0;
    t.apply(op2.clone());
    let st2 = seq(&t);
    if is_del {
        if st2.1 + 1 != st.1 {
            return 0;
        }
        let mut x = 0;
        while x < 4 {
            if x < st2.1 {
                let want = if x < ix2 { st.0[x] } else { st.0[(x + 1) & 3] };
                if st2.0[x] != want {
                    return 0;
                }
            }
            x += 1;
        }
    } else {
        let at = if ix2 > st.1 { st.1 } else { ix2 };
        if !seq_eq(&st2, &with_insert(&st, at, 12)) {
            return 0;
        }
        if t.position(at).copied() != Some(12) {
            return 0;
        }
    }
    // the lagging replica converges as well and keeps the relative order
    t2.apply(op2.clone());
    t2.apply(op2);
    if t2 != t {
        return 0;
    }
    if !saw && !del2 && st.1 == 2 {
        3 // insert next to two concurrent siblings
    } else if is_del {
        4
    } else if del1 {
        5
    } else {
        1
    }
}

//@ harness props=C12,C13,C01,C09,C16 variants=5 covers=3,4,5 unwind=10 name=List bounded history (sliced): two ops by two actors (concurrent or causally ordered, insert or delete) delivered in both causal orders with a duplicate, then a third insert/delete at a symbolic index on the converged replica; slice 0 author-side Vec model, 1 both delivery orders give == replicas, 2 catching up / no duplicates / one relative order, 3 Vec model of the third edit next to concurrent siblings, 4 the lagging replica converges
#[no_mangle]
pub fn h_list_hist3(inp: &Inp) -> u8 {
    let mut i = In::new(inp);
    let v = i.variant(5);
    let a0 = i.below(NA);
    let a1 = i.below(NA);
    let saw = i.bool();
    let del1 = i.bool();
    let ix1 = i.below(3) as usize;
    let a2 = i.below(NA);
    let del2 = i.bool();
    let ix2 = i.below(4) as usize;
    let dup = i.bool();
    i.assume(a0 != a1 || saw);
    i.assume(!del1 || saw);
    if !i.ok {
        return 2;
    }
    let cov = if !saw && !del2 && !del1 { 3 } else if del2 { 4 } else if del1 { 5 } else { 1 };
    let mut r0: L = List::new();
    let op0 = r0.insert_index(0, 10, a0);
    if r0.validate_op(&op0).is_err() {
        return 0;
    }
    r0.apply(op0.clone());
    let mut r1: L = if saw { r0.clone() } else { List::new() };
    let before1 = seq(&r1);
    let op1 = if del1 {
        match r1.delete_index(0, a1) {
            Some(o) => o,
            None => return 0,
        }
    } else {
        r1.insert_index(ix1, 11, a1)
    };
    if r1.validate_op(&op1).is_err() {
        return 0;
    }
    vtrace!("op0 by actor {}: {:?}", a0, op0);
    vtrace!("op1 by actor {} (saw op0: {}): {:?}", a1, saw, op1);
    r1.apply(op1.clone());
    if v == 0 {
        // a replica that has seen nothing accepts op1 iff it is its actor's first op
        let fresh: L = List::new();
        if fresh.validate_op(&op1).is_ok() != (a0 != a1) {
            return 0;
        }
        let after1 = seq(&r1);
        if del1 {
            if after1.1 != 0 {
                return 0;
            }
        } else {
            let at = if ix1 > before1.1 { before1.1 } else { ix1 };
            if !seq_eq(&after1, &with_insert(&before1, at, 11)) {
                return 0;
            }
        }
        return cov;
    }
    let mut t: L = List::new();
    t.apply(op0.clone());
    if t.validate_op(&op1).is_err() {
        return 0;
    }
    t.apply(op1.clone());
    if v == 1 {
        let mut t2: L = List::new();
        if saw {
            t2.apply(op0.clone());
            if dup {
                t2.apply(op0.clone());
            }
            t2.apply(op1.clone());
        } else {
            t2.apply(op1.clone());
            t2.apply(op0.clone());
            if dup {
                t2.apply(op1.clone());
            }
        }
        if t != t2 {
            return 0;
        }
        return cov;
    }
    let st = seq(&t);
    if v == 2 {
        let after1 = seq(&r1);
        r1.apply(op0.clone());
        if r1 != t {
            return 0;
        }
        if count(&st, 10) > 1 || count(&st, 11) > 1 || st.1 != t.len() {
            return 0;
        }
        if !same_relative_order(&st, &after1) || !same_relative_order(&st, &seq(&r0)) {
            return 0;
        }
        return cov;
    }
    let is_del = del2 && st.1 > 0;
    if is_del {
        i.assume(ix2 < st.1);
        if !i.ok {
            return 2;
        }
    }
    let op2 = if is_del {
        match t.delete_index(ix2, a2) {
            Some(o) => o,
            None => return 0,
        }
    } else {
        t.insert_index(ix2, 12, a2)
    };
    if t.validate_op(&op2).is_err() {
        return 0;
    }
    let lag = t.clone();
    vtrace!("op2 by actor {} on the converged replica {:?}: {:?}", a2, st.0, op2);
    t.apply(op2.clone());
    if v == 3 {
        let st2 = seq(&t);
        if is_del {
            if st2.1 + 1 != st.1 {
                return 0;
            }
            let mut x = 0;
            while x < 4 {
                if x < st2.1 {
                    let want = if x < ix2 { st.0[x] } else { st.0[(x + 1) & 3] };
                    if st2.0[x] != want {
                        return 0;
                    }
                }
                x += 1;
            }
        } else {
            let at = if ix2 > st.1 { st.1 } else { ix2 };
            if !seq_eq(&st2, &with_insert(&st, at, 12)) {
                return 0;
            }
            if t.position(at).copied() != Some(12) {
                return 0;
            }
        }
        return cov;
    }
    // v == 4: a replica that lags behind applies the third op (twice) and converges; re-delivering the
    // older ops afterwards (at-least-once delivery) changes nothing, in particular a deleted element stays
    // deleted
    let mut t2 = lag;
    t2.apply(op2.clone());
    t2.apply(op2);
    if t2 != t {
        return 0;
    }
    let mut t3 = t.clone();
    t3.apply(op1);
    t3.apply(op0);
    if t3 != t {
        return 0;
    }
    cov
}

//@ harness props=C12,C01,C09,C16 covers=3 unwind=10 name=List concurrent deletes: two actors delete the same element concurrently, one of them keeps editing; whatever the order in which a replica receives the two deletes (with a duplicate), later ops of both actors are applied and all replicas converge
#[no_mangle]
pub fn h_list_conc_del(inp: &Inp) -> u8 {
    let mut i = In::new(inp);
    let a0 = i.below(NA);
    let a1 = i.below(NA);
    let a2 = i.below(NA);
    let extra = i.bool();
    let ixz = i.below(3) as usize;
    let dup = i.bool();
    i.assume(a1 != a2);
    if !i.ok {
        return 2;
    }
    // a0 inserts x (and possibly y); both a1 and a2 have seen that and delete x concurrently; a2 then inserts z
    let mut r0: L = List::new();
    let op0 = r0.insert_index(0, 10, a0);
    r0.apply(op0.clone());
    let opy = r0.insert_index(1, 13, a0);
    if extra {
        r0.apply(opy.clone());
    }
    let mut r1 = r0.clone();
    let mut r2 = r0.clone();
    let op1 = match r1.delete_index(0, a1) {
        Some(o) => o,
        None => return 0,
    };
    r1.apply(op1.clone());
    let op2 = match r2.delete_index(0, a2) {
        Some(o) => o,
        None => return 0,
    };
    if r2.validate_op(&op2).is_err() {
        return 0;
    }
    r2.apply(op2.clone());
    let op3 = r2.insert_index(ixz, 12, a2);
    if r2.validate_op(&op3).is_err() {
        return 0;
    }
    r2.apply(op3.clone());
    vtrace!("op0 {:?}", op0);
    vtrace!("op1 (delete by actor {}) {:?}", a1, op1);
    vtrace!("op2 (delete by actor {}) {:?}", a2, op2);
    vtrace!("op3 (insert by actor {}) {:?}", a2, op3);
    // replica T receives a1's delete first, T2 a2's ops first
    let mut t = r0.clone();
    if t.validate_op(&op1).is_err() {
        return 0;
    }
    t.apply(op1.clone());
    if t.validate_op(&op2).is_err() {
        return 0;
    }
    t.apply(op2.clone());
    if dup {
        t.apply(op1.clone());
    }
    if t.validate_op(&op3).is_err() {
        return 0;
    }
    t.apply(op3.clone());
    let mut t2 = r0.clone();
    t2.apply(op2.clone());
    t2.apply(op3.clone());
    t2.apply(op1.clone());
    if dup {
        t2.apply(op2.clone());
    }
    r2.apply(op1.clone());
    r1.apply(op2);
    r1.apply(op3);
    if t != t2 || t != r2 || t != r1 {
        return 0;
    }
    let st = seq(&t);
    if count(&st, 12) != 1 || count(&st, 10) != 0 || st.1 != (if extra { 2 } else { 1 }) {
        return 0;
    }
    if extra {
        3
    } else {
        1
    }
}
