//! C11 — counters, LWW/Max/Min registers and GSet compute their exact aggregate.
//! Universe: a fixed list of API-shaped ops with symbolic payloads; knowledge `K` = any subset
//! (no delivery-order assumption, duplicates via `L_dup`, merges via `L_merge`).
use super::common::*;
use crate::gcounter::vaccess as gacc;
use crate::gset::vaccess as sacc;
use crate::pncounter::vaccess as pacc;
use crate::pncounter::{Dir, Op as PnOp};
use crate::{CmRDT, CvRDT, Dot, GCounter, GSet, LWWReg, MaxReg, MinReg, PNCounter, VClock};
use num::bigint::{BigInt, BigUint};
use std::collections::BTreeSet;

const NAU: usize = NA as usize;
/// ops per actor in the counter universes
#[cfg(not(vthorough))]
const NO: usize = 2;
#[cfg(vthorough)]
const NO: usize = 3;

/// counter universe: actor `a` issues `NO` increments with steps `step[a][j]` (1..=2, or 0 for
/// `inc_many(_, 0)`); op j of actor a is the dot (a, step[a][0] + .. + step[a][j])
#[derive(Clone)]
struct CU {
    step: [[u64; NO]; NAU],
}
fn any_cu(i: &mut In) -> CU {
    let mut u = CU { step: [[0; NO]; NAU] };
    let mut a = 0;
    while a < NAU {
        let mut j = 0;
        while j < NO {
            u.step[a][j] = i.below(3) as u64;
            j += 1;
        }
        a += 1;
    }
    u
}
fn total(u: &CU, a: usize, j: usize) -> u64 {
    let mut t = 0;
    let mut x = 0;
    while x <= j {
        t += u.step[a][x];
        x += 1;
    }
    t
}
/// knowledge: any subset of the ops
type CK = [[bool; NO]; NAU];
fn any_ck(i: &mut In) -> CK {
    let mut k = [[false; NO]; NAU];
    let mut a = 0;
    while a < NAU {
        let mut j = 0;
        while j < NO {
            k[a][j] = i.bool();
            j += 1;
        }
        a += 1;
    }
    k
}
fn ck_union(x: &CK, y: &CK) -> CK {
    let mut k = *x;
    let mut a = 0;
    while a < NAU {
        let mut j = 0;
        while j < NO {
            k[a][j] = x[a][j] || y[a][j];
            j += 1;
        }
        a += 1;
    }
    k
}
/// largest running total learned from actor a
fn learned(u: &CU, k: &CK, a: usize) -> u64 {
    let mut m = 0;
    let mut j = 0;
    while j < NO {
        if k[a][j] && total(u, a, j) > m {
            m = total(u, a, j);
        }
        j += 1;
    }
    m
}
fn gspec(u: &CU, k: &CK) -> GCounter<u8> {
    gacc::from_inner(vc_from(|a| learned(u, k, a as usize)))
}
fn gsum(u: &CU, k: &CK) -> u64 {
    let mut s = 0;
    let mut a = 0;
    while a < NAU {
        s += learned(u, k, a);
        a += 1;
    }
    s
}

//@ harness props=C11,C01,C03,C08,C09 covers=3,4 name=GCounter: apply of any op (new, duplicate, out of order) to SPEC(K) gives SPEC(K+op); read is the sum of the largest totals; inc/inc_many derive the next dot
#[no_mangle]
pub fn h_c11_gcounter_apply(inp: &Inp) -> u8 {
    let mut i = In::new(inp);
    let u = any_cu(&mut i);
    let k = any_ck(&mut i);
    let a = i.below(NA) as usize;
    let j = i.below(NO as u8) as usize;
    if !i.ok {
        return 2;
    }
    let mut g = gspec(&u, &k);
    if g.read() != BigUint::from(gsum(&u, &k)) {
        return 0;
    }
    // op generation at the author: it has applied its own earlier ops (and anything else)
    let mut ko = k;
    let mut x = 0;
    while x < NO {
        ko[a][x] = x < j;
        x += 1;
    }
    let author = gspec(&u, &ko);
    let op = if u.step[a][j] == 1 { author.inc(a as u8) } else { author.inc_many(a as u8, u.step[a][j]) };
    if op.actor != a as u8 || op.counter != total(&u, a, j) {
        return 0;
    }
    if g.validate_op(&op).is_err() {
        return 0;
    }
    let dup = k[a][j];
    let before = gsum(&u, &k);
    g.apply(op);
    let mut k2 = k;
    k2[a][j] = true;
    if g != gspec(&u, &k2) {
        return 0;
    }
    let after = gsum(&u, &k2);
    if g.read() != BigUint::from(after) || after < before {
        return 0;
    }
    if dup {
        if after != before {
            return 0;
        }
        3
    } else if j == 0 && k[a][1] {
        4 // an older op arriving after a newer one of the same actor
    } else {
        1
    }
}

//@ harness props=C11,C02,C03,C09 name=GCounter: merge(SPEC(K1), SPEC(K2)) == SPEC(K1 u K2), commutative, read is the sum
#[no_mangle]
pub fn h_c11_gcounter_merge(inp: &Inp) -> u8 {
    let mut i = In::new(inp);
    let u = any_cu(&mut i);
    let k1 = any_ck(&mut i);
    let k2 = any_ck(&mut i);
    if !i.ok {
        return 2;
    }
    let mut g = gspec(&u, &k1);
    let o = gspec(&u, &k2);
    if g.validate_merge(&o).is_err() {
        return 0;
    }
    g.merge(o.clone());
    let k = ck_union(&k1, &k2);
    if g != gspec(&u, &k) || g.read() != BigUint::from(gsum(&u, &k)) {
        return 0;
    }
    let mut g2 = o;
    g2.merge(gspec(&u, &k1));
    if g2 != g {
        return 0;
    }
    1
}

/// PNCounter universe: two counter universes (increments / decrements)
fn pnspec(up: &CU, kp: &CK, un: &CU, kn: &CK) -> PNCounter<u8> {
    pacc::from_parts(gspec(up, kp), gspec(un, kn))
}

//@ harness props=C11,C01,C03,C08,C09 covers=3 name=PNCounter: apply of any inc/dec op to SPEC(K) gives SPEC(K+op); read = sum of increments - sum of decrements; inc/dec/inc_many/dec_many derive the next dot
#[no_mangle]
pub fn h_c11_pncounter_apply(inp: &Inp) -> u8 {
    let mut i = In::new(inp);
    let up = any_cu(&mut i);
    let un = any_cu(&mut i);
    let kp = any_ck(&mut i);
    let kn = any_ck(&mut i);
    let neg = i.bool();
    let a = i.below(NA) as usize;
    let j = i.below(NO as u8) as usize;
    if !i.ok {
        return 2;
    }
    let mut c = pnspec(&up, &kp, &un, &kn);
    let want = BigInt::from(gsum(&up, &kp)) - BigInt::from(gsum(&un, &kn));
    if c.read() != want {
        return 0;
    }
    // op generation at the author
    let (u, k) = if neg { (&un, &kn) } else { (&up, &kp) };
    let mut ko = *k;
    let mut x = 0;
    while x < NO {
        ko[a][x] = x < j;
        x += 1;
    }
    let author = if neg { pnspec(&up, &kp, &un, &ko) } else { pnspec(&up, &ko, &un, &kn) };
    let st = u.step[a][j];
    let op = match (neg, st == 1) {
        (false, true) => author.inc(a as u8),
        (false, false) => author.inc_many(a as u8, st),
        (true, true) => author.dec(a as u8),
        (true, false) => author.dec_many(a as u8, st),
    };
    if op.dot.actor != a as u8 || op.dot.counter != total(u, a, j) {
        return 0;
    }
    if matches!(op.dir, Dir::Neg) != neg {
        return 0;
    }
    if c.validate_op(&op).is_err() {
        return 0;
    }
    c.apply(op);
    let mut kp2 = kp;
    let mut kn2 = kn;
    if neg {
        kn2[a][j] = true;
    } else {
        kp2[a][j] = true;
    }
    if c != pnspec(&up, &kp2, &un, &kn2) {
        return 0;
    }
    let want2 = BigInt::from(gsum(&up, &kp2)) - BigInt::from(gsum(&un, &kn2));
    if c.read() != want2 {
        return 0;
    }
    if want2 < BigInt::from(0u8) {
        3
    } else {
        1
    }
}

//@ harness props=C11,C02,C03,C09 name=PNCounter: merge(SPEC(K1), SPEC(K2)) == SPEC(K1 u K2), commutative
#[no_mangle]
pub fn h_c11_pncounter_merge(inp: &Inp) -> u8 {
    let mut i = In::new(inp);
    let up = any_cu(&mut i);
    let un = any_cu(&mut i);
    let kp1 = any_ck(&mut i);
    let kn1 = any_ck(&mut i);
    let kp2 = any_ck(&mut i);
    let kn2 = any_ck(&mut i);
    if !i.ok {
        return 2;
    }
    let mut c = pnspec(&up, &kp1, &un, &kn1);
    let o = pnspec(&up, &kp2, &un, &kn2);
    if c.validate_merge(&o).is_err() {
        return 0;
    }
    c.merge(o.clone());
    let kp = ck_union(&kp1, &kp2);
    let kn = ck_union(&kn1, &kn2);
    if c != pnspec(&up, &kp, &un, &kn) {
        return 0;
    }
    if c.read() != BigInt::from(gsum(&up, &kp)) - BigInt::from(gsum(&un, &kn)) {
        return 0;
    }
    let mut c2 = o;
    c2.merge(pnspec(&up, &kp1, &un, &kn1));
    if c2 != c {
        return 0;
    }
    1
}

/// wide totals: every actor total is one of {0, 1, 2^63, 2^63+1, 2^64-2, 2^64-1} (0 = absent), so sums of
/// three totals cross 2^64 and single totals reach u64::MAX
const WBASE: [u64; 3] = [0, 1 << 63, u64::MAX - 1];
fn any_w(i: &mut In) -> u64 {
    let hi = i.below(3) as usize;
    let lo = i.below(2) as u64;
    WBASE[hi] + lo
}
fn any_wide(i: &mut In) -> [u64; NAU] {
    let mut t = [0u64; NAU];
    let mut a = 0;
    while a < NAU {
        t[a] = any_w(i);
        a += 1;
    }
    t
}
fn wsum(t: &[u64; NAU]) -> u128 {
    let mut s = 0u128;
    let mut a = 0;
    while a < NAU {
        s += t[a] as u128;
        a += 1;
    }
    s
}
fn wmax(x: &[u64; NAU], y: &[u64; NAU]) -> [u64; NAU] {
    let mut t = *x;
    let mut a = 0;
    while a < NAU {
        if y[a] > t[a] {
            t[a] = y[a];
        }
        a += 1;
    }
    t
}
fn wspec(t: &[u64; NAU]) -> GCounter<u8> {
    gacc::from_inner(vc_from(|a| t[a as usize]))
}

//@ disabled-harness (symbolic execution does not finish in 400 s: guarded-constant sums over 6-valued 64-bit totals) props=C11 covers=3,4 name=GCounter / PNCounter with actor totals at the 64-bit boundaries (0, 1, 2^63, 2^63+1, 2^64-2, 2^64-1; sums beyond 2^64): read is the exact sum / difference, apply keeps the larger total, merge is the per-actor maximum
#[no_mangle]
pub fn h_c11_counter_wide(inp: &Inp) -> u8 {
    let mut i = In::new(inp);
    let p = any_wide(&mut i);
    let n = any_wide(&mut i);
    let q = any_wide(&mut i);
    let a = i.below(NA) as usize;
    let c = any_w(&mut i);
    let neg = i.bool();
    if !i.ok {
        return 2;
    }
    // GCounter: read, apply of an arbitrary dot, merge
    let mut g = wspec(&p);
    if g.read() != BigUint::from(wsum(&p)) {
        return 0;
    }
    g.apply(dot(a as u8, c));
    let mut p2 = p;
    if c > p2[a] {
        p2[a] = c;
    }
    if g != wspec(&p2) || g.read() != BigUint::from(wsum(&p2)) {
        return 0;
    }
    let mut m = wspec(&p);
    m.merge(wspec(&q));
    let pq = wmax(&p, &q);
    if m != wspec(&pq) || m.read() != BigUint::from(wsum(&pq)) {
        return 0;
    }
    // PNCounter: read, apply in either direction, merge
    let mut pn = pacc::from_parts(wspec(&p), wspec(&n));
    let diff = |x: &[u64; NAU], y: &[u64; NAU]| BigInt::from(wsum(x) as i128) - BigInt::from(wsum(y) as i128);
    if pn.read() != diff(&p, &n) {
        return 0;
    }
    pn.apply(PnOp { dot: dot(a as u8, c), dir: if neg { Dir::Neg } else { Dir::Pos } });
    let mut n2 = n;
    if c > n2[a] {
        n2[a] = c;
    }
    let (pe, ne) = if neg { (p, n2) } else { (p2, n) };
    if pn != pacc::from_parts(wspec(&pe), wspec(&ne)) || pn.read() != diff(&pe, &ne) {
        return 0;
    }
    let mut pm = pacc::from_parts(wspec(&p), wspec(&n));
    pm.merge(pacc::from_parts(wspec(&q), wspec(&p)));
    let np = wmax(&n, &p);
    if pm != pacc::from_parts(wspec(&pq), wspec(&np)) || pm.read() != diff(&pq, &np) {
        return 0;
    }
    if wsum(&p) > u64::MAX as u128 && wsum(&p2) > wsum(&p) {
        3 // the sum does not fit a machine word and still grows
    } else if wsum(&p) < wsum(&n) && wsum(&n) > u64::MAX as u128 {
        4 // negative difference with a wide decrement sum
    } else {
        1
    }
}

//@ harness props=C11 covers=3 name=GCounter / PNCounter read with actor totals in {absent, 2^63, 2^64-1}: the sum / difference is exact beyond 2^64 (no machine-word wrap, no lost actor)
#[no_mangle]
pub fn h_c11_read_wide(inp: &Inp) -> u8 {
    const W: [u64; 3] = [0, 1 << 63, u64::MAX];
    let mut i = In::new(inp);
    let mut p = [0u64; NAU];
    let mut n = [0u64; NAU];
    let mut a = 0;
    while a < NAU {
        p[a] = W[i.below(3) as usize];
        n[a] = W[i.below(3) as usize];
        a += 1;
    }
    if !i.ok {
        return 2;
    }
    let g = wspec(&p);
    if g.read() != BigUint::from(wsum(&p)) {
        return 0;
    }
    let pn = pacc::from_parts(wspec(&p), wspec(&n));
    if pn.read() != BigInt::from(wsum(&p) as i128) - BigInt::from(wsum(&n) as i128) {
        return 0;
    }
    if wsum(&p) > u64::MAX as u128 {
        3
    } else {
        1
    }
}

//@ harness props=C11 covers=3 name=GCounter apply / merge with actor totals in {absent, 2^63, 2^64-1}: apply keeps the larger total, merge is the per-actor maximum, the read follows exactly
#[no_mangle]
pub fn h_c11_apply_wide(inp: &Inp) -> u8 {
    const W: [u64; 3] = [0, 1 << 63, u64::MAX];
    let mut i = In::new(inp);
    let mut p = [0u64; NAU];
    let mut q = [0u64; NAU];
    let mut a = 0;
    while a < NAU {
        p[a] = W[i.below(3) as usize];
        q[a] = W[i.below(3) as usize];
        a += 1;
    }
    let a = i.below(NA) as usize;
    let c = W[i.below(3) as usize];
    if !i.ok {
        return 2;
    }
    let mut g = wspec(&p);
    g.apply(dot(a as u8, c));
    let mut p2 = p;
    if c > p2[a] {
        p2[a] = c;
    }
    if !vc_is(gacc::inner(&g), |x| p2[x as usize]) || g.read() != BigUint::from(wsum(&p2)) {
        return 0;
    }
    let mut m = wspec(&p);
    m.merge(wspec(&q));
    let pq = wmax(&p, &q);
    if !vc_is(gacc::inner(&m), |x| pq[x as usize]) || m.read() != BigUint::from(wsum(&pq)) {
        return 0;
    }
    if wsum(&pq) > u64::MAX as u128 {
        3
    } else {
        1
    }
}

//@ harness props=C11 covers=3 name=PNCounter apply / merge with actor totals in {absent, 2^63, 2^64-1}: each direction keeps the larger total, merge is the per-actor maximum of both sides, the read is the exact difference
#[no_mangle]
pub fn h_c11_pn_apply_wide(inp: &Inp) -> u8 {
    const W: [u64; 3] = [0, 1 << 63, u64::MAX];
    let mut i = In::new(inp);
    let mut p = [0u64; NAU];
    let mut n = [0u64; NAU];
    let mut q = [0u64; NAU];
    let mut a = 0;
    while a < NAU {
        p[a] = W[i.below(3) as usize];
        n[a] = W[i.below(3) as usize];
        q[a] = W[i.below(3) as usize];
        a += 1;
    }
    let a = i.below(NA) as usize;
    let c = W[i.below(3) as usize];
    let neg = i.bool();
    if !i.ok {
        return 2;
    }
    let diff = |x: &[u64; NAU], y: &[u64; NAU]| BigInt::from(wsum(x) as i128) - BigInt::from(wsum(y) as i128);
    let same = |c: &PNCounter<u8>, x: &[u64; NAU], y: &[u64; NAU]| {
        let (cp, cn) = pacc::parts(c);
        vc_is(gacc::inner(cp), |z| x[z as usize]) && vc_is(gacc::inner(cn), |z| y[z as usize])
    };
    let mut pn = pacc::from_parts(wspec(&p), wspec(&n));
    pn.apply(PnOp { dot: dot(a as u8, c), dir: if neg { Dir::Neg } else { Dir::Pos } });
    let mut p2 = p;
    let mut n2 = n;
    if neg {
        if c > n2[a] {
            n2[a] = c;
        }
    } else if c > p2[a] {
        p2[a] = c;
    }
    if !same(&pn, &p2, &n2) || pn.read() != diff(&p2, &n2) {
        return 0;
    }
    // merge with a replica whose increments are q and whose decrements are p
    let mut pm = pacc::from_parts(wspec(&p), wspec(&n));
    pm.merge(pacc::from_parts(wspec(&q), wspec(&p)));
    let pq = wmax(&p, &q);
    let np = wmax(&n, &p);
    if !same(&pm, &pq, &np) || pm.read() != diff(&pq, &np) {
        return 0;
    }
    if wsum(&np) > wsum(&pq) && wsum(&np) > u64::MAX as u128 {
        3 // negative read with a decrement sum beyond 2^64
    } else {
        1
    }
}

/// number of ops in the register / set universes
const NW: usize = 3;

//@ harness props=C11,C01,C02,C03,C08,C09 covers=3 name=MaxReg / MinReg: after any sequence of applies and merges the register reads the largest / smallest value ever applied (any order, duplicates)
#[no_mangle]
pub fn h_c11_maxmin(inp: &Inp) -> u8 {
    let mut i = In::new(inp);
    let init = i.u8();
    let mut vals = [0u8; NW];
    let mut k1 = [false; NW];
    let mut k2 = [false; NW];
    let mut x = 0;
    while x < NW {
        vals[x] = i.u8();
        k1[x] = i.bool();
        k2[x] = i.bool();
        x += 1;
    }
    let e = i.below(NW as u8) as usize;
    if !i.ok {
        return 2;
    }
    let spec_max = |k: &[bool; NW]| {
        let mut m = init;
        let mut x = 0;
        while x < NW {
            if k[x] && vals[x] > m {
                m = vals[x];
            }
            x += 1;
        }
        m
    };
    let spec_min = |k: &[bool; NW]| {
        let mut m = init;
        let mut x = 0;
        while x < NW {
            if k[x] && vals[x] < m {
                m = vals[x];
            }
            x += 1;
        }
        m
    };
    // L_apply
    let mut mx = MaxReg { val: spec_max(&k1) };
    let mut mn = MinReg { val: spec_min(&k1) };
    let opx = mx.write(vals[e]);
    let opn = mn.write(vals[e]);
    if mx.validate_op(&opx).is_err() || mn.validate_op(&opn).is_err() {
        return 0;
    }
    mx.apply(opx);
    mn.apply(opn);
    let mut k1e = k1;
    k1e[e] = true;
    if *mx.read() != spec_max(&k1e) || *mn.read() != spec_min(&k1e) {
        return 0;
    }
    // L_merge
    let mut ax = MaxReg { val: spec_max(&k1) };
    let bx = MaxReg { val: spec_max(&k2) };
    let mut an = MinReg { val: spec_min(&k1) };
    let bn = MinReg { val: spec_min(&k2) };
    if ax.validate_merge(&bx).is_err() || an.validate_merge(&bn).is_err() {
        return 0;
    }
    ax.merge(bx);
    an.merge(bn);
    let mut ku = k1;
    let mut x = 0;
    while x < NW {
        ku[x] = k1[x] || k2[x];
        x += 1;
    }
    if ax.val != spec_max(&ku) || an.val != spec_min(&ku) {
        return 0;
    }
    if k1[e] {
        3
    } else {
        1
    }
}

//@ harness props=C11,C01,C02,C03,C08,C09,C16,C17 covers=3,4 name=LWWReg: greatest marker wins under any order / duplication / merge; validate_op and validate_merge flag exactly an equal marker with a different value
#[no_mangle]
pub fn h_c11_lww(inp: &Inp) -> u8 {
    let mut i = In::new(inp);
    // writes with unique markers (same marker => same value)
    let mut val = [0u8; NW];
    let mut mark = [0u8; NW];
    let mut k1 = [false; NW];
    let mut k2 = [false; NW];
    let mut x = 0;
    while x < NW {
        val[x] = i.u8();
        mark[x] = i.u8();
        k1[x] = i.bool();
        k2[x] = i.bool();
        x += 1;
    }
    let e = i.below(NW as u8) as usize;
    // a foreign write that may reuse a marker with another value (misuse)
    let fv = i.u8();
    let fm = i.u8();
    let mut x = 0;
    while x < NW {
        // unique markers: equal markers carry equal values; the initial state is the write (0, 0)
        let mut y = 0;
        while y < NW {
            if mark[x] == mark[y] {
                i.assume(val[x] == val[y]);
            }
            y += 1;
        }
        if mark[x] == 0 {
            i.assume(val[x] == 0);
        }
        x += 1;
    }
    if !i.ok {
        return 2;
    }
    let spec = |k: &[bool; NW]| {
        let mut m = 0u8;
        let mut v = 0u8;
        let mut x = 0;
        while x < NW {
            if k[x] && mark[x] > m {
                m = mark[x];
                v = val[x];
            }
            x += 1;
        }
        LWWReg { val: v, marker: m }
    };
    if LWWReg::<u8, u8>::default() != spec(&[false; NW]) {
        return 0;
    }
    // L_apply (any op, new or duplicate, any order)
    let mut r = spec(&k1);
    let op = LWWReg { val: val[e], marker: mark[e] };
    if r.validate_op(&op).is_err() {
        return 0; // correct use is never flagged
    }
    r.apply(op);
    let mut k1e = k1;
    k1e[e] = true;
    if r != spec(&k1e) {
        return 0;
    }
    // update() is the same thing
    let mut r2 = spec(&k1);
    r2.update(val[e], mark[e]);
    if r2 != r {
        return 0;
    }
    // L_merge + validate_merge accepts correct use in both directions
    let mut a = spec(&k1);
    let b = spec(&k2);
    if a.validate_merge(&b).is_err() || b.validate_merge(&a).is_err() {
        return 0;
    }
    a.merge(b.clone());
    let mut ku = k1;
    let mut x = 0;
    while x < NW {
        ku[x] = k1[x] || k2[x];
        x += 1;
    }
    if a != spec(&ku) {
        return 0;
    }
    let mut b2 = b;
    b2.merge(spec(&k1));
    if b2 != a {
        return 0;
    }
    // misuse: a marker reused with a different value is flagged, symmetrically, and nothing else is
    let cur = spec(&k1);
    let foreign = LWWReg { val: fv, marker: fm };
    let conflict = fm == cur.marker && fv != cur.val;
    if cur.validate_op(&foreign).is_err() != conflict {
        return 0;
    }
    if cur.validate_merge(&foreign).is_err() != conflict || foreign.validate_merge(&cur).is_err() != conflict {
        return 0;
    }
    if conflict {
        3
    } else if k1[e] {
        4
    } else {
        1
    }
}

//@ harness props=C11,C01,C02,C03,C08,C09 covers=3 name=GSet: reads the union of inserted elements under any order / duplication / merge
#[no_mangle]
pub fn h_c11_gset(inp: &Inp) -> u8 {
    let mut i = In::new(inp);
    let mut el = [0u8; NW];
    let mut k1 = [false; NW];
    let mut k2 = [false; NW];
    let mut x = 0;
    while x < NW {
        el[x] = i.below(3);
        k1[x] = i.bool();
        k2[x] = i.bool();
        x += 1;
    }
    let e = i.below(NW as u8) as usize;
    if !i.ok {
        return 2;
    }
    let spec = |k: &[bool; NW]| {
        let mut s = BTreeSet::new();
        let mut x = 0;
        while x < NW {
            if k[x] {
                s.insert(el[x]);
            }
            x += 1;
        }
        sacc::from_set(s)
    };
    let has = |k: &[bool; NW], v: u8| {
        let mut r = false;
        let mut x = 0;
        while x < NW {
            if k[x] && el[x] == v {
                r = true;
            }
            x += 1;
        }
        r
    };
    if GSet::<u8>::new() != spec(&[false; NW]) {
        return 0;
    }
    let mut g = spec(&k1);
    if g.validate_op(&el[e]).is_err() {
        return 0;
    }
    g.apply(el[e]);
    let mut k1e = k1;
    k1e[e] = true;
    if g != spec(&k1e) {
        return 0;
    }
    let rd = g.read();
    let mut v = 0u8;
    while v < 3 {
        if g.contains(&v) != has(&k1e, v) || rd.contains(&v) != has(&k1e, v) {
            return 0;
        }
        v += 1;
    }
    let mut a = spec(&k1);
    let b = spec(&k2);
    if a.validate_merge(&b).is_err() {
        return 0;
    }
    a.merge(b.clone());
    let mut ku = k1;
    let mut x = 0;
    while x < NW {
        ku[x] = k1[x] || k2[x];
        x += 1;
    }
    if a != spec(&ku) {
        return 0;
    }
    let mut b2 = b;
    b2.merge(spec(&k1));
    if b2 != a {
        return 0;
    }
    if k1[e] {
        3
    } else {
        1
    }
}

//@ harness props=C01,C05,C18 covers=3 bounds=thorough:big name=GCounter / PNCounter reset_remove(c): every actor total covered by c is forgotten (increments and decrements alike), the rest is kept; empty clock no-op; c1 then c2 = join; idempotent
#[no_mangle]
pub fn h_c18_counters(inp: &Inp) -> u8 {
    use crate::ResetRemove;
    let mut i = In::new(inp);
    let up = any_cu(&mut i);
    let un = any_cu(&mut i);
    let kp = any_ck(&mut i);
    let kn = any_ck(&mut i);
    let c = any_vclock(&mut i);
    let c2 = any_vclock(&mut i);
    if !i.ok {
        return 2;
    }
    let keep = |v: u64, a: u8, c: &Vc| if v > vget(c, a) { v } else { 0 };
    let s = pnspec(&up, &kp, &un, &kn);
    let mut r = s.clone();
    r.reset_remove(&c);
    let want = pacc::from_parts(
        gacc::from_inner(vc_from(|a| keep(learned(&up, &kp, a as usize), a, &c))),
        gacc::from_inner(vc_from(|a| keep(learned(&un, &kn, a as usize), a, &c))),
    );
    if r != want {
        return 0;
    }
    let mut g = gspec(&up, &kp);
    g.reset_remove(&c);
    if g != gacc::from_inner(vc_from(|a| keep(learned(&up, &kp, a as usize), a, &c))) {
        return 0;
    }
    let mut r2 = r.clone();
    r2.reset_remove(&c);
    if r2 != r {
        return 0;
    }
    let mut e = s.clone();
    e.reset_remove(&VClock::new());
    if e != s {
        return 0;
    }
    let mut x = s.clone();
    x.reset_remove(&c);
    x.reset_remove(&c2);
    let mut j = c.clone();
    j.merge(c2.clone());
    let mut y = s.clone();
    y.reset_remove(&j);
    if x != y {
        return 0;
    }
    if r != s {
        3
    } else {
        1
    }
}
