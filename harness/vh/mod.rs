//! Verification harnesses (DESIGN.md §3.1, §5). Compiled into a scratch copy of the crate in two
//! builds: the *model build* (`--cfg vmodel`, std collections replaced by array models, symbolically
//! executed from LLVM IR) and the *real build* (real std / num / tiny-keccak, used to replay solver
//! models). Every harness is `fn(&Inp) -> u8`: 1 = property holds on this input, 0 = violated,
//! 2 = input outside the assumed universe, >= 3 = named cover point reached (holds as well).
#![allow(missing_docs, dead_code, unused_imports, unused_variables, unused_mut, unreachable_pub)]
#![allow(clippy::all)]

#[macro_use]
pub mod common;
pub mod c10_vclock;
pub mod t_orswot;
pub mod c11_aggregates;
pub mod t_mvreg;
pub mod t_map_orswot;
pub mod t_map_mvreg;
pub mod c14_identifier;
pub mod t_list;
pub mod c15_merkle;

include!(concat!(env!("VH_GEN_DIR"), "/dispatch.rs"));
