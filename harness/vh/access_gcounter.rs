//! access shim (child module of `gcounter`): build / inspect the private state
use super::GCounter;
use crate::VClock;
pub fn from_inner<A: Ord>(inner: VClock<A>) -> GCounter<A> {
    GCounter { inner }
}
pub fn inner<A: Ord>(g: &GCounter<A>) -> &VClock<A> {
    &g.inner
}
