//! access shim (child module of `map`): build / inspect the private state of a Map
use super::{Entry, Map, Val};
use crate::VClock;
use std::collections::{BTreeMap, BTreeSet, HashMap};
use std::hash::Hash;

pub fn from_parts<K: Ord, V: Val<A>, A: Ord + Hash>(
    clock: VClock<A>,
    items: Vec<(K, VClock<A>, V)>,
    deferred: HashMap<VClock<A>, BTreeSet<K>>,
) -> Map<K, V, A> {
    let mut entries = BTreeMap::new();
    for (k, c, v) in items {
        entries.insert(k, Entry { clock: c, val: v });
    }
    Map { clock, entries, deferred }
}
pub fn clock<K: Ord, V: Val<A>, A: Ord + Hash>(m: &Map<K, V, A>) -> &VClock<A> {
    &m.clock
}
pub fn entry<'a, K: Ord, V: Val<A>, A: Ord + Hash>(m: &'a Map<K, V, A>, k: &K) -> Option<(&'a VClock<A>, &'a V)> {
    m.entries.get(k).map(|e| (&e.clock, &e.val))
}
pub fn n_entries<K: Ord, V: Val<A>, A: Ord + Hash>(m: &Map<K, V, A>) -> usize {
    m.entries.len()
}
pub fn deferred<K: Ord, V: Val<A>, A: Ord + Hash>(m: &Map<K, V, A>) -> &HashMap<VClock<A>, BTreeSet<K>> {
    &m.deferred
}
