//! C15 — MerkleReg state is a function of the node set; reads are the DAG heads.
//! Universe: `NN` nodes, node `j` has the distinct payload `[1 << j]` and a symbolic child set among the
//! nodes `i < j` (acyclic by index; any fan-in / fan-out / shared ancestors). Knowledge `K`: any subset
//! received. Hashes come from the real `Node::hash()` (model build: structural tag hash, injective on
//! this universe; real build: SHA3).
use super::common::*;
use crate::merkle_reg::vaccess as acc;
use crate::merkle_reg::{Hash, MerkleReg, Node, ValidationError};
use crate::{CmRDT, CvRDT};
use std::collections::{BTreeMap, BTreeSet};

pub const NN: usize = 3;
type Reg = MerkleReg<[u8; 1]>;

pub struct Uni {
    pub ch: [u8; NN],          // child bit mask of node j (bits < j)
    pub node: [Node<[u8; 1]>; NN],
    pub hash: [Hash; NN],
}

pub fn any_uni(i: &mut In) -> Uni {
    let mut ch = [0u8; NN];
    let mut hash: [Hash; NN] = [[0u8; 32]; NN];
    let mk = |_: usize| Node { children: BTreeSet::new(), value: [0u8; 1] };
    let mut node: [Node<[u8; 1]>; NN] = [mk(0), mk(1), mk(2)];
    let mut j = 0;
    while j < NN {
        let m = i.below(1 << NN);
        i.assume(m >> j == 0);
        ch[j] = m;
        let mut children = BTreeSet::new();
        let mut x = 0;
        while x < j {
            if (m >> x) & 1 == 1 {
                children.insert(hash[x]);
            }
            x += 1;
        }
        let reg: Reg = MerkleReg::new();
        node[j] = reg.write([1u8 << j], children);
        hash[j] = node[j].hash();
        j += 1;
    }
    Uni { ch, node, hash }
}

/// visible nodes under knowledge k: received and every child visible (ancestors complete)
pub fn visible(u: &Uni, k: u8) -> u8 {
    let mut vis = 0u8;
    let mut j = 0;
    while j < NN {
        if (k >> j) & 1 == 1 && (u.ch[j] & !vis) == 0 {
            vis |= 1 << j;
        }
        j += 1;
    }
    vis
}
/// heads: visible nodes that no visible node lists as a child
pub fn heads(u: &Uni, k: u8) -> u8 {
    let vis = visible(u, k);
    let mut h = vis;
    let mut j = 0;
    while j < NN {
        if (vis >> j) & 1 == 1 {
            h &= !u.ch[j];
        }
        j += 1;
    }
    h
}

pub fn spec(u: &Uni, k: u8) -> Reg {
    let vis = visible(u, k);
    let hd = heads(u, k);
    let mut roots = BTreeSet::new();
    let mut dag = BTreeMap::new();
    let mut orphans = BTreeMap::new();
    let mut j = 0;
    while j < NN {
        if (hd >> j) & 1 == 1 {
            roots.insert(u.hash[j]);
        }
        if (vis >> j) & 1 == 1 {
            dag.insert(u.hash[j], u.node[j].clone());
        } else if (k >> j) & 1 == 1 {
            orphans.insert(u.hash[j], u.node[j].clone());
        }
        j += 1;
    }
    acc::from_parts(roots, dag, orphans)
}

//@ disabled-harness (maps keyed by 32-byte hashes blow the encoder up: > 11 M nodes before the first query) props=C15 name=MerkleReg L_apply / L_dup + reads: applying any node (new, duplicate, with missing ancestors, filling a gap) to SPEC(U,K) gives SPEC(U,K+n); read() = heads, orphans invisible, num_nodes / num_orphans / node / children / parents, validate_op = MissingChild iff a child is not visible
#[no_mangle]
pub fn h_c15_apply(inp: &Inp) -> u8 {
    let mut i = In::new(inp);
    let u = any_uni(&mut i);
    let k = i.below(1 << NN);
    let e = i.below(NN as u8) as usize;
    if !i.ok {
        return 2;
    }
    // distinct hashes is the assumption of the property (holds for SHA3; the model hash is injective here)
    if u.hash[0] == u.hash[1] || u.hash[0] == u.hash[2] || u.hash[1] == u.hash[2] {
        return 2;
    }
    if Reg::new() != spec(&u, 0) {
        return 0;
    }
    let mut s = spec(&u, k);
    // reads on SPEC(K)
    let vis = visible(&u, k);
    let hd = heads(&u, k);
    let rd = s.read().hashes();
    let mut j = 0;
    let mut nvis = 0;
    let mut norph = 0;
    while j < NN {
        if rd.contains(&u.hash[j]) != ((hd >> j) & 1 == 1) {
            return 0;
        }
        if (vis >> j) & 1 == 1 {
            nvis += 1;
        } else if (k >> j) & 1 == 1 {
            norph += 1;
        }
        let known = (k >> j) & 1 == 1;
        if s.node(u.hash[j]).is_some() != known {
            return 0;
        }
        // children(): the visible children of a visible node; parents(): visible nodes listing it
        let chs = s.children(u.hash[j]).hashes();
        let prs = s.parents(u.hash[j]).hashes();
        let mut x = 0;
        while x < NN {
            let is_child = (vis >> j) & 1 == 1 && (u.ch[j] >> x) & 1 == 1;
            if chs.contains(&u.hash[x]) != is_child {
                return 0;
            }
            let is_parent = (vis >> x) & 1 == 1 && (u.ch[x] >> j) & 1 == 1;
            if prs.contains(&u.hash[x]) != is_parent {
                return 0;
            }
            x += 1;
        }
        j += 1;
    }
    if rd.len() != (hd.count_ones() as usize) || s.num_nodes() != nvis || s.num_orphans() != norph {
        return 0;
    }
    if s.read().is_empty() != (hd == 0) {
        return 0;
    }
    // validate_op: missing child iff some child is not visible
    let missing = u.ch[e] & !vis != 0;
    match s.validate_op(&u.node[e]) {
        Ok(()) => {
            if missing {
                return 0;
            }
        }
        Err(ValidationError::MissingChild(h)) => {
            if !missing {
                return 0;
            }
            let mut found = false;
            let mut x = 0;
            while x < NN {
                if (u.ch[e] >> x) & 1 == 1 && (vis >> x) & 1 == 0 && u.hash[x] == h {
                    found = true;
                }
                x += 1;
            }
            if !found {
                return 0;
            }
        }
    }
    s.apply(u.node[e].clone());
    let k2 = k | (1 << e);
    if s != spec(&u, k2) {
        return 0;
    }
    if (k >> e) & 1 == 1 {
        3 // duplicate
    } else if visible(&u, k2).count_ones() > vis.count_ones() + 1 {
        4 // the node fills a gap: orphans become visible
    } else if missing {
        5 // arrives before an ancestor: stays an orphan
    } else {
        1
    }
}

//@ disabled-harness (see h_c15_apply) props=C15 name=MerkleReg L_merge + write-on-heads: merge(SPEC(U,K1), SPEC(U,K2)) == SPEC(U,K1 u K2) (orphans on either side included); a node written on top of the heads read replaces them
#[no_mangle]
pub fn h_c15_merge(inp: &Inp) -> u8 {
    let mut i = In::new(inp);
    let u = any_uni(&mut i);
    let k1 = i.below(1 << NN);
    let k2 = i.below(1 << NN);
    if !i.ok {
        return 2;
    }
    if u.hash[0] == u.hash[1] || u.hash[0] == u.hash[2] || u.hash[1] == u.hash[2] {
        return 2;
    }
    let mut s = spec(&u, k1);
    let o = spec(&u, k2);
    if s.validate_merge(&o).is_err() {
        return 0;
    }
    s.merge(o);
    if s != spec(&u, k1 | k2) {
        return 0;
    }
    // write on top of what was read: the new node becomes the only head (when it fits the capacity bound)
    let vis = visible(&u, k1 | k2);
    if (k1 | k2).count_ones() < NN as u32 && vis != 0 {
        let w = s.write([0x80u8], s.read().hashes());
        let wh = w.hash();
        if s.validate_op(&w).is_err() {
            return 0;
        }
        s.apply(w);
        let rd = s.read().hashes();
        if rd.len() != 1 || !rd.contains(&wh) {
            return 0;
        }
    }
    let orph1 = k1 & !visible(&u, k1) != 0;
    if orph1 && (k1 | k2) & !vis == 0 {
        3 // the other side fills our gap
    } else if k1 | k2 == k1 {
        4
    } else {
        1
    }
}
