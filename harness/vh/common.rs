//! Input reader, bounds and small helpers shared by all harnesses.
use crate::{Dot, VClock};

/// Length of the symbolic input block handed to every harness.
pub const NIN: usize = 96;
pub type Inp = [u8; NIN];

// ---- universe bounds (DESIGN.md §4): one scratch build per bounds profile (tools/vbuild.py)
#[cfg(vtiny)]
mod b {
    // profile:tiny
    pub const NA: u8 = 2;
    pub const NC: u64 = 2;
    pub const NM: u8 = 1;
    pub const NV: u8 = 2;
    pub const NR: usize = 1;
}
#[cfg(vsmall)]
mod b {
    // profile:small
    pub const NA: u8 = 2; // actors 0..NA
    pub const NC: u64 = 2; // counters 0..=NC
    pub const NM: u8 = 2; // members / keys 0..NM
    pub const NV: u8 = 2; // payload values 0..NV
    pub const NR: usize = 1; // removes in the universe
}
#[cfg(not(any(vtiny, vsmall, vthorough)))]
mod b {
    // profile:base
    pub const NA: u8 = 3;
    pub const NC: u64 = 2;
    pub const NM: u8 = 2;
    pub const NV: u8 = 2;
    pub const NR: usize = 1;
}
#[cfg(vthorough)]
mod b {
    // profile:big
    pub const NA: u8 = 3;
    pub const NC: u64 = 3;
    pub const NM: u8 = 3;
    pub const NV: u8 = 3;
    pub const NR: usize = 2;
}
pub use b::*;

/// Straight-line reader: never returns early, so the read position stays concrete.
pub struct In<'a> {
    b: &'a Inp,
    p: usize,
    pub ok: bool,
}

impl<'a> In<'a> {
    pub fn new(b: &'a Inp) -> Self {
        In { b, p: 0, ok: true }
    }
    #[inline(always)]
    pub fn u8(&mut self) -> u8 {
        let v = self.b[self.p];
        self.p += 1;
        v
    }
    #[inline(always)]
    pub fn bool(&mut self) -> bool {
        self.u8() & 1 == 1
    }
    /// value in `0..n`; anything else marks the input as outside the universe
    #[inline(always)]
    pub fn below(&mut self, n: u8) -> u8 {
        let v = self.u8();
        if v >= n {
            self.ok = false;
            0
        } else {
            v
        }
    }
    /// which output slice this run compares (`//@ harness variants=n`): the driver fixes the last input
    /// byte to 0..n-1, one symbolic execution per value; natively any byte is folded into the range
    #[inline(always)]
    pub fn variant(&self, n: u8) -> u8 {
        self.b[NIN - 1] % n
    }
    #[inline(always)]
    pub fn assume(&mut self, c: bool) {
        if !c {
            self.ok = false;
        }
    }
}

/// Trace output for replays (real build only, enabled by the replay binary).
#[cfg(not(vmodel))]
pub static TRACE: core::sync::atomic::AtomicBool = core::sync::atomic::AtomicBool::new(false);

#[cfg(not(vmodel))]
#[macro_export]
macro_rules! vtrace {
    ($($a:tt)*) => {
        if $crate::vh::common::TRACE.load(core::sync::atomic::Ordering::Relaxed) {
            eprintln!($($a)*);
        }
    };
}
#[cfg(vmodel)]
#[macro_export]
macro_rules! vtrace {
    ($($a:tt)*) => {};
}

// ---- vector clocks over the bounded actor universe
pub type Vc = VClock<u8>;

/// arbitrary clock: every actor `0..NA` gets a counter `0..=NC` (0 = absent)
pub fn any_vclock(i: &mut In) -> Vc {
    let mut c = VClock::new();
    let mut a = 0u8;
    while a < NA {
        let n = i.below(NC as u8 + 1) as u64;
        if n > 0 {
            c.dots.insert(a, n);
        }
        a += 1;
    }
    c
}

/// reference lookup that does not go through `VClock::get`
pub fn vget(c: &Vc, a: u8) -> u64 {
    let mut r = 0;
    for (k, v) in c.dots.iter() {
        if *k == a {
            r = *v;
        }
    }
    r
}

/// pointwise `a <= b`
pub fn leq(a: &Vc, b: &Vc) -> bool {
    let mut x = 0u8;
    let mut r = true;
    while x < NA {
        if vget(a, x) > vget(b, x) {
            r = false;
        }
        x += 1;
    }
    r
}

/// structural well-formedness: no zero counter stored, only actors of the universe
pub fn wf(c: &Vc) -> bool {
    let mut r = true;
    for (k, v) in c.dots.iter() {
        if *v == 0 || *k >= NA {
            r = false;
        }
    }
    r
}

/// clock built from a pointwise function
pub fn vc_from(f: impl Fn(u8) -> u64) -> Vc {
    let mut c = VClock::new();
    let mut a = 0u8;
    while a < NA {
        let n = f(a);
        if n > 0 {
            c.dots.insert(a, n);
        }
        a += 1;
    }
    c
}

/// pointwise equality with a function (also checks well-formedness)
pub fn vc_is(c: &Vc, f: impl Fn(u8) -> u64) -> bool {
    let mut r = wf(c);
    let mut a = 0u8;
    while a < NA {
        if vget(c, a) != f(a) {
            r = false;
        }
        a += 1;
    }
    r
}

pub fn dot(a: u8, c: u64) -> Dot<u8> {
    Dot::new(a, c)
}

// ---- dyadic rationals (exact in both builds)
/// `n / 2^k`
#[cfg(vmodel)]
pub fn mk_rat(n: i64, k: u32) -> num::BigRational {
    num::BigRational::from_raw(n << (num::FRAC - k))
}
#[cfg(not(vmodel))]
pub fn mk_rat(n: i64, k: u32) -> num::BigRational {
    num::BigRational::new(num::BigInt::from(n), num::BigInt::from(1i64 << k))
}
