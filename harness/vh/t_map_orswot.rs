//! Map<u8, Orswot<u8,u8>, u8>: declarative specification and inductive lemmas (C05; also C01, C02,
//! C03, C08, C09, C16, C20).
//!
//! Universe `U`: actor `a` issues updates `(a,1..=issued[a])`; update `(a,c)` targets key `key[a][c]` and
//! carries the nested op `set.add_all(members, ctx)` (dot = the update's dot), exactly what
//! `Map::update(key, read_ctx().derive_add_ctx(a), |set, ctx| set.add_all(members, ctx))` produces.
//! `NR` key removes, each a key set and a context clock `<= issued` (superset of every context the API
//! hands out: `get(k)`, `len()`, `read_ctx()`, `keys()` ...).
//! Knowledge `K`: per-actor prefix `seen[a]` plus any subset of the removes (no causal assumption).
//!
//! `SPEC(U,K)`: key `k` is present iff some applied update to `k` is not covered by an applied remove
//! of `k`; its entry clock holds the newest such dot per actor; the nested set holds, per member, the
//! newest surviving add dot per actor; removes ahead of the clock are pending.
use super::common::*;
use crate::map::vaccess as acc;
use crate::map::{Map, Op};
use crate::orswot::{self, Orswot};
use crate::{CmRDT, CvRDT, Dot, VClock};
use std::collections::{BTreeSet, HashMap, HashSet};

pub const NCU: usize = NC as usize;
pub const NAU: usize = NA as usize;
pub const NK: u8 = NM;
/// members of the nested sets (one in the `small` profile, where the merge lemma runs in the quick tier)
#[cfg(any(vsmall, vtiny))]
pub const NMM: u8 = 1;
#[cfg(not(any(vsmall, vtiny)))]
pub const NMM: u8 = NM;
pub type M = Map<u8, Orswot<u8, u8>, u8>;

#[derive(Clone, Debug)]
pub struct Uni {
    pub issued: [u64; NAU],
    pub key: [[u8; NCU]; NAU],
    pub mem: [[u8; NCU]; NAU],
    pub rm_keys: [u8; NR],
    pub rm_ctx: [[u64; NAU]; NR],
}
#[derive(Clone, Debug)]
pub struct Know {
    pub seen: [u64; NAU],
    pub rms: [bool; NR],
}

pub fn any_uni(i: &mut In) -> Uni {
    let mut u = Uni { issued: [0; NAU], key: [[0; NCU]; NAU], mem: [[0; NCU]; NAU], rm_keys: [0; NR], rm_ctx: [[0; NAU]; NR] };
    let mut a = 0;
    while a < NAU {
        u.issued[a] = i.below(NC as u8 + 1) as u64;
        let mut c = 0;
        while c < NCU {
            u.key[a][c] = i.below(NK);
            u.mem[a][c] = i.below(1 << NMM);
            c += 1;
        }
        a += 1;
    }
    let mut r = 0;
    while r < NR {
        u.rm_keys[r] = i.below(1 << NK);
        let mut a = 0;
        while a < NAU {
            let c = i.below(NC as u8 + 1) as u64;
            i.assume(c <= u.issued[a]);
            u.rm_ctx[r][a] = c;
            a += 1;
        }
        r += 1;
    }
    vtrace!("universe {:?}", u);
    u
}
pub fn any_know(i: &mut In, u: &Uni) -> Know {
    let mut k = Know { seen: [0; NAU], rms: [false; NR] };
    let mut a = 0;
    while a < NAU {
        let s = i.below(NC as u8 + 1) as u64;
        i.assume(s <= u.issued[a]);
        k.seen[a] = s;
        a += 1;
    }
    let mut r = 0;
    while r < NR {
        k.rms[r] = i.bool();
        r += 1;
    }
    vtrace!("knowledge {:?}", k);
    k
}
pub fn union(k1: &Know, k2: &Know) -> Know {
    let mut k = k1.clone();
    let mut a = 0;
    while a < NAU {
        if k2.seen[a] > k.seen[a] {
            k.seen[a] = k2.seen[a];
        }
        a += 1;
    }
    let mut r = 0;
    while r < NR {
        k.rms[r] = k.rms[r] || k2.rms[r];
        r += 1;
    }
    k
}
pub fn subset(k1: &Know, k2: &Know) -> bool {
    let mut ok = true;
    let mut a = 0;
    while a < NAU {
        if k1.seen[a] > k2.seen[a] {
            ok = false;
        }
        a += 1;
    }
    let mut r = 0;
    while r < NR {
        if k1.rms[r] && !k2.rms[r] {
            ok = false;
        }
        r += 1;
    }
    ok
}

/// dot (a, c) is covered by an applied remove of key `key`
fn covered(u: &Uni, k: &Know, key: u8, a: usize, c: u64) -> bool {
    let mut cov = false;
    let mut r = 0;
    while r < NR {
        if k.rms[r] && (u.rm_keys[r] >> key) & 1 == 1 && u.rm_ctx[r][a] >= c {
            cov = true;
        }
        r += 1;
    }
    cov
}

/// newest surviving update dot of actor `a` on key `key` (0 = none): the entry clock
pub fn kwit(u: &Uni, k: &Know, key: u8, a: usize) -> u64 {
    let mut cmax = 0u64;
    let mut c = 0;
    while c < NCU {
        if (c as u64) < k.seen[a] && u.key[a][c] == key {
            cmax = c as u64 + 1;
        }
        c += 1;
    }
    if cmax > 0 && covered(u, k, key, a, cmax) {
        0
    } else {
        cmax
    }
}
/// newest surviving add dot of actor `a` for member `m` under key `key`
pub fn mwit(u: &Uni, k: &Know, key: u8, m: u8, a: usize) -> u64 {
    let mut cmax = 0u64;
    let mut c = 0;
    while c < NCU {
        if (c as u64) < k.seen[a] && u.key[a][c] == key && (u.mem[a][c] >> m) & 1 == 1 {
            cmax = c as u64 + 1;
        }
        c += 1;
    }
    if cmax > 0 && covered(u, k, key, a, cmax) {
        0
    } else {
        cmax
    }
}
pub fn kpresent(u: &Uni, k: &Know, key: u8) -> bool {
    let mut p = false;
    let mut a = 0;
    while a < NAU {
        if kwit(u, k, key, a) > 0 {
            p = true;
        }
        a += 1;
    }
    p
}
pub fn mpresent(u: &Uni, k: &Know, key: u8, m: u8) -> bool {
    let mut p = false;
    let mut a = 0;
    while a < NAU {
        if mwit(u, k, key, m, a) > 0 {
            p = true;
        }
        a += 1;
    }
    p
}
pub fn pending(u: &Uni, k: &Know, r: usize) -> bool {
    let mut ahead = false;
    let mut a = 0;
    while a < NAU {
        if u.rm_ctx[r][a] > k.seen[a] {
            ahead = true;
        }
        a += 1;
    }
    k.rms[r] && ahead
}

/// the nested set the specification prescribes under key `key`
pub fn nested_spec(u: &Uni, k: &Know, key: u8) -> Orswot<u8, u8> {
    let clock = vc_from(|a| kwit(u, k, key, a as usize));
    let mut entries: HashMap<u8, Vc> = HashMap::new();
    let mut m = 0u8;
    while m < NMM {
        if mpresent(u, k, key, m) {
            entries.insert(m, vc_from(|a| mwit(u, k, key, m, a as usize)));
        }
        m += 1;
    }
    Orswot { clock, entries, deferred: HashMap::new() }
}

pub fn spec(u: &Uni, k: &Know, flip: bool) -> M {
    let clock = vc_from(|a| k.seen[a as usize]);
    let mut items: Vec<(u8, Vc, Orswot<u8, u8>)> = Vec::new();
    let mut j = 0u8;
    while j < NK {
        let key = if flip { NK - 1 - j } else { j };
        if kpresent(u, k, key) {
            items.push((key, vc_from(|a| kwit(u, k, key, a as usize)), nested_spec(u, k, key)));
        }
        j += 1;
    }
    let mut deferred: HashMap<Vc, BTreeSet<u8>> = HashMap::new();
    let mut j = 0;
    while j < NR {
        let r = if flip { NR - 1 - j } else { j };
        if pending(u, k, r) {
            let set = deferred.entry(vc_from(|a| u.rm_ctx[r][a as usize])).or_default();
            let mut key = 0u8;
            while key < NK {
                if (u.rm_keys[r] >> key) & 1 == 1 {
                    set.insert(key);
                }
                key += 1;
            }
        }
        j += 1;
    }
    acc::from_parts(clock, items, deferred)
}

fn mask_vec(mask: u8) -> Vec<u8> {
    let mut v = Vec::new();
    let mut m = 0u8;
    while m < NMM {
        if (mask >> m) & 1 == 1 {
            v.push(m);
        }
        m += 1;
    }
    v
}
pub fn up_op(u: &Uni, a: usize, c: u64) -> Op<u8, Orswot<u8, u8>, u8> {
    let ci = (c - 1) as usize;
    Op::Up {
        dot: Dot::new(a as u8, c),
        key: u.key[a][ci],
        op: orswot::Op::Add { dot: Dot::new(a as u8, c), members: mask_vec(u.mem[a][ci]) },
    }
}
pub fn rm_op(u: &Uni, r: usize) -> Op<u8, Orswot<u8, u8>, u8> {
    let mut keyset = BTreeSet::new();
    let mut key = 0u8;
    while key < NK {
        if (u.rm_keys[r] >> key) & 1 == 1 {
            keyset.insert(key);
        }
        key += 1;
    }
    Op::Rm { clock: vc_from(|a| u.rm_ctx[r][a as usize]), keyset }
}

/// one slice of the state comparison: 0 = map clock + sizes, 1..=NK = entry of key v-1 (clock and nested
/// set), NK+1 = pending removes. All slices equal <=> `==`.
pub fn slice_eq(x: &M, y: &M, v: u8) -> bool {
    if v == 0 {
        acc::clock(x) == acc::clock(y) && acc::n_entries(x) == acc::n_entries(y) && acc::deferred(x).len() == acc::deferred(y).len()
    } else if v <= NK {
        acc::entry(x, &(v - 1)) == acc::entry(y, &(v - 1))
    } else {
        acc::deferred(x) == acc::deferred(y)
    }
}

/// finer slices of the state comparison (all equal <=> `==`): 0 = map clock + sizes; then per key
/// `k`: entry presence + entry clock, nested clock + nested pending table, and one slice per nested member;
/// last = pending key removes.
pub const FINE: u8 = 2 + NK * (2 + NMM);
pub fn fine_slice_eq(x: &M, y: &M, v: u8) -> bool {
    if v == 0 {
        return acc::clock(x) == acc::clock(y) && acc::n_entries(x) == acc::n_entries(y) && acc::deferred(x).len() == acc::deferred(y).len();
    }
    if v == FINE - 1 {
        return acc::deferred(x) == acc::deferred(y);
    }
    let per = 2 + NMM;
    let key = (v - 1) / per;
    let part = (v - 1) % per;
    let ex = acc::entry(x, &key);
    let ey = acc::entry(y, &key);
    if part == 0 {
        ex.is_some() == ey.is_some() && ex.map(|e| e.0) == ey.map(|e| e.0)
    } else if part == 1 {
        ex.map(|e| (&e.1.clock, &e.1.deferred)) == ey.map(|e| (&e.1.clock, &e.1.deferred))
            && ex.map(|e| e.1.entries.len()) == ey.map(|e| e.1.entries.len())
    } else {
        let m = part - 2;
        ex.map(|e| e.1.entries.get(&m)) == ey.map(|e| e.1.entries.get(&m))
    }
}

//@ harness props=C05,C07,C01 covers=3,4 name=Map<Orswot> reads on SPEC(U,K): get/keys/len/is_empty/iter/values return exactly the keys with a surviving update, their witness clocks as rm context, the knowledge clock as add context, and the surviving members under each key
#[no_mangle]
pub fn h_mapo_reads(inp: &Inp) -> u8 {
    let mut i = In::new(inp);
    let u = any_uni(&mut i);
    let k = any_know(&mut i, &u);
    let flip = i.bool();
    if !i.ok {
        return 2;
    }
    let s = spec(&u, &k, flip);
    let mut n = 0usize;
    let mut key = 0u8;
    let mut partial = false;
    while key < NK {
        let p = kpresent(&u, &k, key);
        if p {
            n += 1;
        }
        let g = s.get(&key);
        if !vc_is(&g.add_clock, |a| k.seen[a as usize]) || !vc_is(&g.rm_clock, |a| kwit(&u, &k, key, a as usize)) {
            return 0;
        }
        match g.val {
            None => {
                if p {
                    return 0;
                }
            }
            Some(set) => {
                if !p {
                    return 0;
                }
                let mut m = 0u8;
                while m < NMM {
                    let c = set.contains(&m);
                    if c.val != mpresent(&u, &k, key, m) || !vc_is(&c.rm_clock, |a| mwit(&u, &k, key, m, a as usize)) {
                        return 0;
                    }
                    m += 1;
                }
            }
        }
        key += 1;
    }
    if s.len().val != n || s.is_empty().val != (n == 0) {
        return 0;
    }
    if !vc_is(&s.len().add_clock, |a| k.seen[a as usize]) || !vc_is(&s.read_ctx().rm_clock, |a| k.seen[a as usize]) {
        return 0;
    }
    let mut cnt = 0usize;
    for e in s.keys() {
        cnt += 1;
        let key = *e.val;
        if key >= NK || !kpresent(&u, &k, key) || !vc_is(&e.rm_clock, |a| kwit(&u, &k, key, a as usize)) {
            return 0;
        }
    }
    if cnt != n || s.iter().count() != n || s.values().count() != n {
        return 0;
    }
    if pending(&u, &k, 0) {
        3
    } else if n == NK as usize {
        4
    } else {
        1
    }
}

//@ harness props=C05,C01,C08,C16,C20 variants=2+NK*(2+NMM) covers=3,4 kf=203 name=Map<Orswot> L_apply(update): applying the next update of any actor to SPEC(U,K) gives SPEC(U,K+e) for every K (pending removes included); validate_op accepts it
#[no_mangle]
pub fn h_mapo_apply_up(inp: &Inp) -> u8 {
    let mut i = In::new(inp);
    let v = i.variant(FINE);
    let u = any_uni(&mut i);
    let k = any_know(&mut i, &u);
    let flip = i.bool();
    let a = i.below(NA) as usize;
    i.assume(k.seen[a] < u.issued[a]);
    if !i.ok {
        return 2;
    }
    let mut s = spec(&u, &k, flip);
    let op = up_op(&u, a, k.seen[a] + 1);
    let valid = s.validate_op(&op).is_ok();
    s.apply(op);
    let mut k2 = k.clone();
    k2.seen[a] += 1;
    if !fine_slice_eq(&s, &spec(&u, &k2, flip), v) {
        return 0;
    }
    if !valid {
        // D3: the same actor updating a key whose entry does not hold its previous dot is rejected
        let key = u.key[a][k.seen[a] as usize];
        if k.seen[a] >= 1 && kwit(&u, &k, key, a) < k.seen[a] {
            return 203;
        }
        return 0;
    }
    let mut cov = 1;
    let mut r = 0;
    while r < NR {
        if pending(&u, &k, r) && !pending(&u, &k2, r) {
            cov = 3;
        }
        r += 1;
    }
    if cov == 1 && kwit(&u, &k2, u.key[a][k.seen[a] as usize], a) == 0 {
        cov = 4; // the update is killed at once by a pending remove that had observed it
    }
    cov
}

//@ harness props=C05,C01,C08,C20 variants=NK+2 covers=3,4 name=Map<Orswot> L_apply(rm): applying any not-yet-applied key remove to SPEC(U,K) gives SPEC(U,K+e), including removes that overtake updates they observed
#[no_mangle]
pub fn h_mapo_apply_rm(inp: &Inp) -> u8 {
    let mut i = In::new(inp);
    let v = i.variant(NK + 2);
    let u = any_uni(&mut i);
    let k = any_know(&mut i, &u);
    let flip = i.bool();
    let r = i.below(NR as u8) as usize;
    i.assume(!k.rms[r]);
    if !i.ok {
        return 2;
    }
    let mut s = spec(&u, &k, flip);
    let op = rm_op(&u, r);
    if s.validate_op(&op).is_err() {
        return 0;
    }
    s.apply(op);
    let mut k2 = k.clone();
    k2.rms[r] = true;
    if !slice_eq(&s, &spec(&u, &k2, flip), v) {
        return 0;
    }
    if pending(&u, &k2, r) {
        3
    } else if kpresent(&u, &k, 0) && kpresent(&u, &k2, 0) && mpresent(&u, &k, 0, 0) && !mpresent(&u, &k2, 0, 0) {
        4 // key survives (concurrent update) but the member the remover had seen is gone
    } else {
        1
    }
}

//@ harness props=C09,C05,C20 covers=3,4 name=Map<Orswot> L_dup: re-applying any already-applied update or remove leaves SPEC(U,K) unchanged (==)
#[no_mangle]
pub fn h_mapo_dup(inp: &Inp) -> u8 {
    let mut i = In::new(inp);
    let u = any_uni(&mut i);
    let k = any_know(&mut i, &u);
    let flip = i.bool();
    let is_rm = i.bool();
    let a = i.below(NA) as usize;
    let c = i.below(NC as u8 + 1) as u64;
    let r = i.below(NR as u8) as usize;
    if is_rm {
        i.assume(k.rms[r]);
    } else {
        i.assume(c >= 1 && c <= k.seen[a]);
    }
    if !i.ok {
        return 2;
    }
    let mut s = spec(&u, &k, flip);
    let pre = s.clone();
    let op = if is_rm { rm_op(&u, r) } else { up_op(&u, a, c) };
    s.apply(op);
    if s != pre {
        return 0;
    }
    if is_rm {
        3
    } else if !kpresent(&u, &k, u.key[a][(c - 1) as usize]) {
        4 // stale update of a removed key: must not resurrect
    } else {
        1
    }
}

//@ disabled-harness (symbolic execution finishes with lazy joins but every z3 query runs out of memory / time even with 2 actors, 1 key, 1 member; DESIGN.md §9) props=C02,C03,C05,C08,C09,C20 variants=NK+2 name=Map<Orswot> L_merge: merge(SPEC(U,K1), SPEC(U,K2)) == SPEC(U,K1 u K2)
#[no_mangle]
pub fn h_mapo_merge(inp: &Inp) -> u8 {
    let mut i = In::new(inp);
    let v = i.variant(NK + 2);
    let u = any_uni(&mut i);
    let k1 = any_know(&mut i, &u);
    let k2 = any_know(&mut i, &u);
    let f1 = i.bool();
    let f2 = i.bool();
    if !i.ok {
        return 2;
    }
    let mut s = spec(&u, &k1, f1);
    let o = spec(&u, &k2, f2);
    s.merge(o);
    let kk = union(&k1, &k2);
    if !slice_eq(&s, &spec(&u, &kk, f1), v) {
        return 0;
    }
    if subset(&k2, &k1) {
        3
    } else if pending(&u, &k1, 0) || pending(&u, &k2, 0) {
        4
    } else if kpresent(&u, &k2, 0) && !kpresent(&u, &kk, 0) {
        5
    } else {
        1
    }
}

//@ harness props=C01,C03,C05,C08,C09,C20 covers=3 name=Map<Orswot> L_apply(rm, equal context): a second key remove with the SAME context as an applied (possibly pending) remove but other keys acts like one remove of the union of the keys
#[no_mangle]
pub fn h_mapo_apply_rm_same_ctx(inp: &Inp) -> u8 {
    let mut i = In::new(inp);
    let u = any_uni(&mut i);
    let k = any_know(&mut i, &u);
    let flip = i.bool();
    let mask2 = i.below(1 << NK);
    i.assume(k.rms[0]);
    if !i.ok {
        return 2;
    }
    let mut s = spec(&u, &k, flip);
    let mut keyset = BTreeSet::new();
    let mut key = 0u8;
    while key < NK {
        if (mask2 >> key) & 1 == 1 {
            keyset.insert(key);
        }
        key += 1;
    }
    let op = Op::Rm { clock: vc_from(|a| u.rm_ctx[0][a as usize]), keyset };
    if s.validate_op(&op).is_err() {
        return 0;
    }
    s.apply(op);
    let mut u2 = u.clone();
    u2.rm_keys[0] |= mask2;
    if s != spec(&u2, &k, flip) {
        return 0;
    }
    if pending(&u, &k, 0) && (mask2 & !u.rm_keys[0]) != 0 {
        3
    } else {
        1
    }
}

//@ harness props=C18,C05 variants=2+NK*(2+NMM) covers=3,4 name=Map<Orswot> reset_remove(c) on SPEC(U,K) for any clock c: map clock, entry clocks, nested set clocks / member witnesses and pending contexts lose exactly the covered dots; emptied entries, members and pending removes vanish
#[no_mangle]
pub fn h_mapo_reset_remove(inp: &Inp) -> u8 {
    use crate::ResetRemove;
    let mut i = In::new(inp);
    let v = i.variant(FINE);
    let u = any_uni(&mut i);
    let k = any_know(&mut i, &u);
    let flip = i.bool();
    let c = any_vclock(&mut i);
    if !i.ok {
        return 2;
    }
    let mut s = spec(&u, &k, flip);
    s.reset_remove(&c);
    let keep = |x: u64, a: u8| if x > vget(&c, a) { x } else { 0 };
    // expected state
    let clock = vc_from(|a| keep(k.seen[a as usize], a));
    let mut items: Vec<(u8, Vc, Orswot<u8, u8>)> = Vec::new();
    let mut emptied = false;
    let mut key = 0u8;
    while key < NK {
        if kpresent(&u, &k, key) {
            let ec = vc_from(|a| keep(kwit(&u, &k, key, a as usize), a));
            if ec.is_empty() {
                emptied = true;
            } else {
                let mut entries: HashMap<u8, Vc> = HashMap::new();
                let mut m = 0u8;
                while m < NMM {
                    let mc = vc_from(|a| keep(mwit(&u, &k, key, m, a as usize), a));
                    if !mc.is_empty() {
                        entries.insert(m, mc);
                    }
                    m += 1;
                }
                items.push((key, ec.clone(), Orswot { clock: ec, entries, deferred: HashMap::new() }));
            }
        }
        key += 1;
    }
    let mut deferred: HashMap<Vc, BTreeSet<u8>> = HashMap::new();
    let mut r = 0;
    while r < NR {
        if pending(&u, &k, r) {
            let ctx = vc_from(|a| keep(u.rm_ctx[r][a as usize], a));
            if !ctx.is_empty() {
                let set = deferred.entry(ctx).or_default();
                let mut key = 0u8;
                while key < NK {
                    if (u.rm_keys[r] >> key) & 1 == 1 {
                        set.insert(key);
                    }
                    key += 1;
                }
            }
        }
        r += 1;
    }
    let want = acc::from_parts(clock, items, deferred);
    if !fine_slice_eq(&s, &want, v) {
        return 0;
    }
    if emptied {
        3
    } else if pending(&u, &k, 0) {
        4
    } else {
        1
    }
}

/// some dot is the current witness of key x in one map and of a different key in the other
fn key_double_spent(x: &M, y: &M) -> bool {
    let mut r = false;
    let mut p = 0u8;
    while p < NK {
        let mut q = 0u8;
        while q < NK {
            if p != q {
                let mut a = 0u8;
                while a < NA {
                    let c = vget(&x.get(&p).rm_clock, a);
                    if c != 0 && c == vget(&y.get(&q).rm_clock, a) {
                        r = true;
                    }
                    a += 1;
                }
            }
            q += 1;
        }
        p += 1;
    }
    r
}

//@ harness props=C17 covers=3,4 kf=201 name=Map<Orswot> validate_merge: Ok in both directions for every pair SPEC(U,K1), SPEC(U,K2) under correct use; under misuse (two independent universes sharing actor ids) a dot that witnesses different keys is flagged in both directions
#[no_mangle]
pub fn h_mapo_validate_merge(inp: &Inp) -> u8 {
    let mut i = In::new(inp);
    let u1 = any_uni(&mut i);
    let k1 = any_know(&mut i, &u1);
    let k2 = any_know(&mut i, &u1);
    let misuse = i.bool();
    let u2 = any_uni(&mut i);
    let k3 = any_know(&mut i, &u2);
    if !i.ok {
        return 2;
    }
    let x = spec(&u1, &k1, false);
    let y = if misuse { spec(&u2, &k3, false) } else { spec(&u1, &k2, true) };
    let v1 = x.validate_merge(&y).is_err();
    let v2 = y.validate_merge(&x).is_err();
    if !misuse {
        if v1 || v2 {
            // the nested sets may trip over D4 (one add_all dot on several members)
            let mut multi = false;
            let mut a = 0;
            while a < NAU {
                let mut c = 0;
                while c < NCU {
                    let m = u1.mem[a][c];
                    if m & m.wrapping_sub(1) != 0 {
                        multi = true;
                    }
                    c += 1;
                }
                a += 1;
            }
            if multi {
                return 201;
            }
            return 0;
        }
        return if acc::n_entries(&x) > 0 && acc::n_entries(&y) > 0 { 3 } else { 1 };
    }
    // misuse: a key-level double spent dot must be reported, in both directions
    if key_double_spent(&x, &y) && !(v1 && v2) {
        return 0;
    }
    // ... and so must a dot that witnesses different members under the same key (checked by the library when
    // the two entry clocks are concurrent)
    let mut key = 0u8;
    while key < NK {
        if let (Some((cx, sx_)), Some((cy, sy_))) = (acc::entry(&x, &key), acc::entry(&y, &key)) {
            if cx.concurrent(cy) {
                let mut ds = false;
                let mut p = 0u8;
                while p < NMM {
                    let mut q = 0u8;
                    while q < NMM {
                        if p != q {
                            let mut a = 0u8;
                            while a < NA {
                                let c = vget(&sx_.contains(&p).rm_clock, a);
                                if c != 0 && c == vget(&sy_.contains(&q).rm_clock, a) {
                                    ds = true;
                                }
                                a += 1;
                            }
                        }
                        q += 1;
                    }
                    p += 1;
                }
                if ds && !(v1 && v2) {
                    return 0;
                }
            }
        }
        key += 1;
    }
    if key_double_spent(&x, &y) {
        4
    } else {
        1
    }
}

//@ disabled-harness (two Map::merge calls: the encoder runs out of memory; natively this harness returns 207 = a removed member comes back through the merge whenever the second add does not re-add it, see DESIGN.md §8) props=C03,C02,C05,C09 name=Map<Orswot> merge vs op delivery around a remove (the repo's examples/reset_remove.rs with the second edit by the same actor): A adds members under key k, B removes k having seen that, A adds other members under k without seeing the remove; merging the two replicas in either direction must read like the replica that applied the three ops
#[no_mangle]
pub fn h_mapo_merge_d1(inp: &Inp) -> u8 {
    let mut i = In::new(inp);
    let a = i.below(NA);
    let b = i.below(NA);
    let key = i.below(NK);
    let m1 = i.below(1 << NMM);
    let m2 = i.below(1 << NMM);
    i.assume(a != b && m1 != 0);
    if !i.ok {
        return 2;
    }
    let mut ra: M = Map::new();
    let u1 = ra.update(key, ra.read_ctx().derive_add_ctx(a), |set, c| set.add_all(mask_vec(m1), c));
    ra.apply(u1.clone());
    let mut rb = ra.clone();
    let rm = rb.rm(key, rb.get(&key).derive_rm_ctx());
    rb.apply(rm.clone());
    let u2 = ra.update(key, ra.get(&key).derive_add_ctx(a), |set, c| set.add_all(mask_vec(m2), c));
    ra.apply(u2.clone());
    // op delivery of all three
    let mut w: M = Map::new();
    w.apply(u1);
    w.apply(rm);
    w.apply(u2);
    // the specification: only the second add survives
    let got = w.get(&key).val;
    match &got {
        None => return 0,
        Some(set) => {
            let mut m = 0u8;
            while m < NMM {
                if set.contains(&m).val != ((m2 >> m) & 1 == 1) {
                    return 0;
                }
                m += 1;
            }
        }
    }
    // state merges, both directions
    let mut x = rb.clone();
    x.merge(ra.clone());
    let mut y = ra.clone();
    y.merge(rb.clone());
    let mut resurrect = false;
    for mm in [&x, &y] {
        match mm.get(&key).val {
            None => return 0,
            Some(set) => {
                let mut m = 0u8;
                while m < NMM {
                    let has = set.contains(&m).val;
                    let want = (m2 >> m) & 1 == 1;
                    if has && !want && (m1 >> m) & 1 == 1 {
                        resurrect = true;
                    } else if has != want {
                        return 0;
                    }
                    m += 1;
                }
            }
        }
    }
    if resurrect {
        // known finding (announced by C03): a member removed by B comes back through the merge
        return 207;
    }
    if x != w || y != w {
        return 0;
    }
    1
}
