//! Orswot: declarative specification over an event universe and the inductive lemmas
//! (DESIGN.md §5). Serves C01, C03, C04, C07, C08, C09, C16, C20 (+ C02 via `L_merge`).
//!
//! Universe `U`: actor `a` issues adds `(a,1..=issued[a])`, add `(a,c)` carries a member set;
//! `NR` removes, each a member set and a context clock `<= issued` (a superset of every context the
//! API can hand out: `contains(m)`, `read()`, `read_ctx()`, `iter()`).
//! Knowledge `K`: `seen[a] <= issued[a]` (per-actor prefix) plus any subset of the removes — no
//! causal-order assumption at all, which is the documented delivery contract (C08).
use super::common::*;
use crate::ctx::{AddCtx, ReadCtx, RmCtx};
use crate::orswot::{Op, Orswot};
use crate::{CmRDT, CvRDT, Dot, VClock};
use std::collections::{HashMap, HashSet};

pub const NCU: usize = NC as usize;
pub const NAU: usize = NA as usize;

pub type Set = Orswot<u8, u8>;

#[derive(Clone)]
pub struct Uni {
    pub issued: [u64; NAU],
    pub mem: [[u8; NCU]; NAU], // member bit mask of add (a, c+1)
    pub rm_mem: [u8; NR],
    pub rm_ctx: [[u64; NAU]; NR],
}

#[derive(Clone)]
pub struct Know {
    pub seen: [u64; NAU],
    pub rms: [bool; NR],
}

pub fn any_uni(i: &mut In) -> Uni {
    let mut u = Uni { issued: [0; NAU], mem: [[0; NCU]; NAU], rm_mem: [0; NR], rm_ctx: [[0; NAU]; NR] };
    let mut a = 0;
    while a < NAU {
        u.issued[a] = i.below(NC as u8 + 1) as u64;
        let mut c = 0;
        while c < NCU {
            u.mem[a][c] = i.below(1 << NM);
            c += 1;
        }
        a += 1;
    }
    let mut r = 0;
    while r < NR {
        u.rm_mem[r] = i.below(1 << NM);
        let mut a = 0;
        while a < NAU {
            let c = i.below(NC as u8 + 1) as u64;
            i.assume(c <= u.issued[a]);
            u.rm_ctx[r][a] = c;
            a += 1;
        }
        r += 1;
    }
    u
}

pub fn any_know(i: &mut In, u: &Uni) -> Know {
    let mut k = Know { seen: [0; NAU], rms: [false; NR] };
    let mut a = 0;
    while a < NAU {
        let s = i.below(NC as u8 + 1) as u64;
        i.assume(s <= u.issued[a]);
        k.seen[a] = s;
        a += 1;
    }
    let mut r = 0;
    while r < NR {
        k.rms[r] = i.bool();
        r += 1;
    }
    k
}

pub fn union(k1: &Know, k2: &Know) -> Know {
    let mut k = k1.clone();
    let mut a = 0;
    while a < NAU {
        if k2.seen[a] > k.seen[a] {
            k.seen[a] = k2.seen[a];
        }
        a += 1;
    }
    let mut r = 0;
    while r < NR {
        k.rms[r] = k.rms[r] || k2.rms[r];
        r += 1;
    }
    k
}

pub fn subset(k1: &Know, k2: &Know) -> bool {
    let mut ok = true;
    let mut a = 0;
    while a < NAU {
        if k1.seen[a] > k2.seen[a] {
            ok = false;
        }
        a += 1;
    }
    let mut r = 0;
    while r < NR {
        if k1.rms[r] && !k2.rms[r] {
            ok = false;
        }
        r += 1;
    }
    ok
}

/// surviving witness of member `m` by actor `a` under knowledge `k` (0 = none)
pub fn witness(u: &Uni, k: &Know, m: u8, a: usize) -> u64 {
    let mut cmax = 0u64;
    let mut c = 0;
    while c < NCU {
        if (c as u64) < k.seen[a] && (u.mem[a][c] >> m) & 1 == 1 {
            cmax = c as u64 + 1;
        }
        c += 1;
    }
    let mut covered = false;
    let mut r = 0;
    while r < NR {
        if k.rms[r] && (u.rm_mem[r] >> m) & 1 == 1 && u.rm_ctx[r][a] >= cmax {
            covered = true;
        }
        r += 1;
    }
    if covered {
        0
    } else {
        cmax
    }
}

pub fn present(u: &Uni, k: &Know, m: u8) -> bool {
    let mut p = false;
    let mut a = 0;
    while a < NAU {
        if witness(u, k, m, a) > 0 {
            p = true;
        }
        a += 1;
    }
    p
}

/// remove `r` is still pending under `k`: applied, and its context is not covered by the clock
pub fn pending(u: &Uni, k: &Know, r: usize) -> bool {
    let mut ahead = false;
    let mut a = 0;
    while a < NAU {
        if u.rm_ctx[r][a] > k.seen[a] {
            ahead = true;
        }
        a += 1;
    }
    k.rms[r] && ahead
}

/// The state the property statements prescribe for knowledge `k` (C04, C20). `flip` picks the
/// insertion order of the hash containers so that no result may depend on iteration order.
pub fn spec(u: &Uni, k: &Know, flip: bool) -> Set {
    let clock = vc_from(|a| k.seen[a as usize]);
    let mut entries: HashMap<u8, Vc> = HashMap::new();
    let mut j = 0u8;
    while j < NM {
        let m = if flip { NM - 1 - j } else { j };
        if present(u, k, m) {
            entries.insert(m, vc_from(|a| witness(u, k, m, a as usize)));
        }
        j += 1;
    }
    let mut deferred: HashMap<Vc, HashSet<u8>> = HashMap::new();
    let mut j = 0;
    while j < NR {
        let r = if flip { NR - 1 - j } else { j };
        if pending(u, k, r) {
            let ctx = vc_from(|a| u.rm_ctx[r][a as usize]);
            let set = deferred.entry(ctx).or_default();
            let mut m = 0u8;
            while m < NM {
                if (u.rm_mem[r] >> m) & 1 == 1 {
                    set.insert(m);
                }
                m += 1;
            }
        }
        j += 1;
    }
    Orswot { clock, entries, deferred }
}

fn mask_vec(mask: u8) -> Vec<u8> {
    let mut v = Vec::new();
    let mut m = 0u8;
    while m < NM {
        if (mask >> m) & 1 == 1 {
            v.push(m);
        }
        m += 1;
    }
    v
}

pub fn add_op(u: &Uni, a: usize, c: u64) -> Op<u8, u8> {
    Op::Add { dot: Dot::new(a as u8, c), members: mask_vec(u.mem[a][(c - 1) as usize]) }
}

pub fn rm_op(u: &Uni, r: usize) -> Op<u8, u8> {
    Op::Rm { clock: vc_from(|a| u.rm_ctx[r][a as usize]), members: mask_vec(u.rm_mem[r]) }
}

/// every read of `s` equals what the specification prescribes for `k` (reads only, no `==`)
pub fn reads_match(s: &Set, u: &Uni, k: &Know) -> bool {
    let mut ok = true;
    let rd = s.read();
    if !vc_is(&rd.add_clock, |a| k.seen[a as usize]) || !vc_is(&rd.rm_clock, |a| k.seen[a as usize]) {
        ok = false;
    }
    let mut n = 0usize;
    let mut m = 0u8;
    while m < NM {
        let p = present(u, k, m);
        if rd.val.contains(&m) != p {
            ok = false;
        }
        if p {
            n += 1;
        }
        let c = s.contains(&m);
        if c.val != p {
            ok = false;
        }
        if !vc_is(&c.rm_clock, |a| witness(u, k, m, a as usize)) {
            ok = false;
        }
        if !vc_is(&c.add_clock, |a| k.seen[a as usize]) {
            ok = false;
        }
        m += 1;
    }
    if rd.val.len() != n {
        ok = false;
    }
    // iter() hands out the same contexts
    let mut cnt = 0usize;
    for e in s.iter() {
        cnt += 1;
        let m = *e.val;
        if m >= NM || !present(u, k, m) {
            ok = false;
        } else if !vc_is(&e.rm_clock, |a| witness(u, k, m, a as usize)) || !vc_is(&e.add_clock, |a| k.seen[a as usize]) {
            ok = false;
        }
    }
    if cnt != n {
        ok = false;
    }
    ok
}

/// structural equality with the specified state (C20). What every read of a specified state returns is
/// settled separately by `h_orswot_reads` for all (U, K).
fn same(s: &Set, u: &Uni, k: &Know, flip: bool) -> bool {
    *s == spec(u, k, flip)
}

//@ harness props=C04,C07,C01 covers=3 name=Orswot reads: on SPEC(U,K), read/contains/iter return exactly the members with a surviving witness, their witness clocks as rm context and the knowledge clock as add context
#[no_mangle]
pub fn h_orswot_reads(inp: &Inp) -> u8 {
    let mut i = In::new(inp);
    let u = any_uni(&mut i);
    let k = any_know(&mut i, &u);
    let flip = i.bool();
    if !i.ok {
        return 2;
    }
    let s = spec(&u, &k, flip);
    if !reads_match(&s, &u, &k) {
        return 0;
    }
    // a pending remove or a removed member is invisible to reads
    if pending(&u, &k, 0) {
        3
    } else {
        1
    }
}

//@ harness props=C01,C04,C20 name=Orswot L_init: the empty set is SPEC(U, {})
#[no_mangle]
pub fn h_orswot_init(inp: &Inp) -> u8 {
    let mut i = In::new(inp);
    let u = any_uni(&mut i);
    if !i.ok {
        return 2;
    }
    let k = Know { seen: [0; NAU], rms: [false; NR] };
    let s: Set = Orswot::new();
    same(&s, &u, &k, false) as u8
}

//@ harness props=C01,C04,C08,C20 covers=3,4 name=Orswot L_apply(add): applying the next add of any actor to SPEC(U,K) gives SPEC(U,K+e) for every K (no causal assumption)
#[no_mangle]
pub fn h_orswot_apply_add(inp: &Inp) -> u8 {
    let mut i = In::new(inp);
    let u = any_uni(&mut i);
    let k = any_know(&mut i, &u);
    let flip = i.bool();
    let a = i.below(NA) as usize;
    i.assume(k.seen[a] < u.issued[a]);
    if !i.ok {
        return 2;
    }
    let mut s = spec(&u, &k, flip);
    let op = add_op(&u, a, k.seen[a] + 1);
    if s.validate_op(&op).is_err() {
        return 0;
    }
    s.apply(op);
    let mut k2 = k.clone();
    k2.seen[a] += 1;
    if !same(&s, &u, &k2, !flip) {
        return 0;
    }
    // cover: a pending remove became covered by this add / an add that a pending remove already kills
    let mut r = 0;
    let mut cov = 1;
    while r < NR {
        if pending(&u, &k, r) && !pending(&u, &k2, r) {
            cov = 3;
        } else if pending(&u, &k2, r) && (u.rm_mem[r] & u.mem[a][k.seen[a] as usize]) != 0 && cov == 1 {
            cov = 4;
        }
        r += 1;
    }
    cov
}

//@ harness props=C01,C04,C08,C20 covers=3,4 name=Orswot L_apply(rm): applying any not-yet-applied remove to SPEC(U,K) gives SPEC(U,K+e) for every K, including overtaking removes
#[no_mangle]
pub fn h_orswot_apply_rm(inp: &Inp) -> u8 {
    let mut i = In::new(inp);
    let u = any_uni(&mut i);
    let k = any_know(&mut i, &u);
    let flip = i.bool();
    let r = i.below(NR as u8) as usize;
    i.assume(!k.rms[r]);
    if !i.ok {
        return 2;
    }
    let mut s = spec(&u, &k, flip);
    let op = rm_op(&u, r);
    if s.validate_op(&op).is_err() {
        return 0;
    }
    s.apply(op);
    let mut k2 = k.clone();
    k2.rms[r] = true;
    if !same(&s, &u, &k2, !flip) {
        return 0;
    }
    if pending(&u, &k2, r) {
        3
    } else if present(&u, &k, 0) && !present(&u, &k2, 0) {
        4
    } else {
        1
    }
}

//@ harness props=C09,C04,C20 covers=3,4 name=Orswot L_dup: re-applying any already-applied add or remove leaves SPEC(U,K) unchanged (== and reads)
#[no_mangle]
pub fn h_orswot_dup(inp: &Inp) -> u8 {
    let mut i = In::new(inp);
    let u = any_uni(&mut i);
    let k = any_know(&mut i, &u);
    let flip = i.bool();
    let is_rm = i.bool();
    let a = i.below(NA) as usize;
    let c = i.below(NC as u8 + 1) as u64;
    let r = i.below(NR as u8) as usize;
    if is_rm {
        i.assume(k.rms[r]);
    } else {
        i.assume(c >= 1 && c <= k.seen[a]);
    }
    if !i.ok {
        return 2;
    }
    let mut s = spec(&u, &k, flip);
    let pre = s.clone();
    let op = if is_rm { rm_op(&u, r) } else { add_op(&u, a, c) };
    if s.validate_op(&op).is_err() {
        return 0;
    }
    s.apply(op);
    if s != pre {
        return 0;
    }
    if is_rm {
        3
    } else if !present(&u, &k, 0) && (u.mem[a][(c - 1) as usize] & 1) == 1 {
        4 // stale add of a removed member: must not resurrect
    } else {
        1
    }
}

/// compare one slice of two states: 0 = clock and table sizes, 1..=NM = the entry of member v-1,
/// NM+1 = the pending-remove table. All slices equal <=> `==` (derived, field-wise).
fn slice_eq(x: &Set, y: &Set, v: u8) -> bool {
    if v == 0 {
        x.clock == y.clock && x.entries.len() == y.entries.len() && x.deferred.len() == y.deferred.len()
    } else if v <= NM {
        x.entries.get(&(v - 1)) == y.entries.get(&(v - 1))
    } else {
        x.deferred == y.deferred
    }
}

//@ harness props=C02,C03,C08,C09,C20 variants=NM+2 bounds=quick:small,thorough:base covers=3,4,5 name=Orswot L_merge: merge(SPEC(U,K1), SPEC(U,K2)) == SPEC(U, K1 u K2) for all knowledge pairs (incl. pending removes, stale and equal states); one output slice per variant
#[no_mangle]
pub fn h_orswot_merge(inp: &Inp) -> u8 {
    let mut i = In::new(inp);
    let v = i.variant(NM + 2);
    let u = any_uni(&mut i);
    let k1 = any_know(&mut i, &u);
    let k2 = any_know(&mut i, &u);
    let f1 = i.bool();
    let f2 = i.bool();
    if !i.ok {
        return 2;
    }
    let mut s = spec(&u, &k1, f1);
    let o = spec(&u, &k2, f2);
    s.merge(o);
    let k = union(&k1, &k2);
    if !slice_eq(&s, &spec(&u, &k, f1), v) {
        return 0;
    }
    if subset(&k2, &k1) {
        3 // stale / equal state absorbed
    } else if pending(&u, &k1, 0) || pending(&u, &k2, 0) {
        4
    } else if present(&u, &k2, 0) && !present(&u, &k, 0) {
        5 // the other side's element is dropped because we saw it removed
    } else {
        1
    }
}
