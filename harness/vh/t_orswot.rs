//! Orswot: declarative specification over an event universe and the inductive lemmas
//! (DESIGN.md §5). Serves C01, C03, C04, C07, C08, C09, C16, C20 (+ C02 via `L_merge`).
//!
//! Universe `U`: actor `a` issues adds `(a,1..=issued[a])`, add `(a,c)` carries a member set;
//! `NR` removes, each a member set and a context clock `<= issued` (a superset of every context the
//! API can hand out: `contains(m)`, `read()`, `read_ctx()`, `iter()`).
//! Knowledge `K`: `seen[a] <= issued[a]` (per-actor prefix) plus any subset of the removes — no
//! causal-order assumption at all, which is the documented delivery contract (C08).
use super::common::*;
use crate::ctx::{AddCtx, ReadCtx, RmCtx};
use crate::orswot::{Op, Orswot};
use crate::{CmRDT, CvRDT, Dot, VClock};
use std::collections::{HashMap, HashSet};

pub const NCU: usize = NC as usize;
pub const NAU: usize = NA as usize;

pub type Set = Orswot<u8, u8>;

#[derive(Clone, Debug)]
pub struct Uni {
    pub issued: [u64; NAU],
    pub mem: [[u8; NCU]; NAU], // member bit mask of add (a, c+1)
    pub rm_mem: [u8; NR],
    pub rm_ctx: [[u64; NAU]; NR],
}

#[derive(Clone, Debug)]
pub struct Know {
    pub seen: [u64; NAU],
    pub rms: [bool; NR],
}

pub fn any_uni(i: &mut In) -> Uni {
    let mut u = Uni { issued: [0; NAU], mem: [[0; NCU]; NAU], rm_mem: [0; NR], rm_ctx: [[0; NAU]; NR] };
    let mut a = 0;
    while a < NAU {
        u.issued[a] = i.below(NC as u8 + 1) as u64;
        let mut c = 0;
        while c < NCU {
            u.mem[a][c] = i.below(1 << NM);
            c += 1;
        }
        a += 1;
    }
    let mut r = 0;
    while r < NR {
        u.rm_mem[r] = i.below(1 << NM);
        let mut a = 0;
        while a < NAU {
            let c = i.below(NC as u8 + 1) as u64;
            i.assume(c <= u.issued[a]);
            u.rm_ctx[r][a] = c;
            a += 1;
        }
        r += 1;
    }
    vtrace!("universe {:?}", u);
    u
}

pub fn any_know(i: &mut In, u: &Uni) -> Know {
    let mut k = Know { seen: [0; NAU], rms: [false; NR] };
    let mut a = 0;
    while a < NAU {
        let s = i.below(NC as u8 + 1) as u64;
        i.assume(s <= u.issued[a]);
        k.seen[a] = s;
        a += 1;
    }
    let mut r = 0;
    while r < NR {
        k.rms[r] = i.bool();
        r += 1;
    }
    vtrace!("knowledge {:?}", k);
    k
}

pub fn union(k1: &Know, k2: &Know) -> Know {
    let mut k = k1.clone();
    let mut a = 0;
    while a < NAU {
        if k2.seen[a] > k.seen[a] {
            k.seen[a] = k2.seen[a];
        }
        a += 1;
    }
    let mut r = 0;
    while r < NR {
        k.rms[r] = k.rms[r] || k2.rms[r];
        r += 1;
    }
    k
}

pub fn subset(k1: &Know, k2: &Know) -> bool {
    let mut ok = true;
    let mut a = 0;
    while a < NAU {
        if k1.seen[a] > k2.seen[a] {
            ok = false;
        }
        a += 1;
    }
    let mut r = 0;
    while r < NR {
        if k1.rms[r] && !k2.rms[r] {
            ok = false;
        }
        r += 1;
    }
    ok
}

/// surviving witness of member `m` by actor `a` under knowledge `k` (0 = none)
pub fn witness(u: &Uni, k: &Know, m: u8, a: usize) -> u64 {
    let mut cmax = 0u64;
    let mut c = 0;
    while c < NCU {
        if (c as u64) < k.seen[a] && (u.mem[a][c] >> m) & 1 == 1 {
            cmax = c as u64 + 1;
        }
        c += 1;
    }
    let mut covered = false;
    let mut r = 0;
    while r < NR {
        if k.rms[r] && (u.rm_mem[r] >> m) & 1 == 1 && u.rm_ctx[r][a] >= cmax {
            covered = true;
        }
        r += 1;
    }
    if covered {
        0
    } else {
        cmax
    }
}

pub fn present(u: &Uni, k: &Know, m: u8) -> bool {
    let mut p = false;
    let mut a = 0;
    while a < NAU {
        if witness(u, k, m, a) > 0 {
            p = true;
        }
        a += 1;
    }
    p
}

/// remove `r` is still pending under `k`: applied, and its context is not covered by the clock
pub fn pending(u: &Uni, k: &Know, r: usize) -> bool {
    let mut ahead = false;
    let mut a = 0;
    while a < NAU {
        if u.rm_ctx[r][a] > k.seen[a] {
            ahead = true;
        }
        a += 1;
    }
    k.rms[r] && ahead
}

/// The state the property statements prescribe for knowledge `k` (C04, C20). `flip` picks the
/// insertion order of the hash containers so that no result may depend on iteration order.
pub fn spec(u: &Uni, k: &Know, flip: bool) -> Set {
    let clock = vc_from(|a| k.seen[a as usize]);
    let mut entries: HashMap<u8, Vc> = HashMap::new();
    let mut j = 0u8;
    while j < NM {
        let m = if flip { NM - 1 - j } else { j };
        if present(u, k, m) {
            entries.insert(m, vc_from(|a| witness(u, k, m, a as usize)));
        }
        j += 1;
    }
    let mut deferred: HashMap<Vc, HashSet<u8>> = HashMap::new();
    let mut j = 0;
    while j < NR {
        let r = if flip { NR - 1 - j } else { j };
        if pending(u, k, r) {
            let ctx = vc_from(|a| u.rm_ctx[r][a as usize]);
            let set = deferred.entry(ctx).or_default();
            let mut m = 0u8;
            while m < NM {
                if (u.rm_mem[r] >> m) & 1 == 1 {
                    set.insert(m);
                }
                m += 1;
            }
        }
        j += 1;
    }
    Orswot { clock, entries, deferred }
}

fn mask_vec(mask: u8) -> Vec<u8> {
    let mut v = Vec::new();
    let mut m = 0u8;
    while m < NM {
        if (mask >> m) & 1 == 1 {
            v.push(m);
        }
        m += 1;
    }
    v
}

pub fn add_op(u: &Uni, a: usize, c: u64) -> Op<u8, u8> {
    Op::Add { dot: Dot::new(a as u8, c), members: mask_vec(u.mem[a][(c - 1) as usize]) }
}

pub fn rm_op(u: &Uni, r: usize) -> Op<u8, u8> {
    Op::Rm { clock: vc_from(|a| u.rm_ctx[r][a as usize]), members: mask_vec(u.rm_mem[r]) }
}

/// every read of `s` equals what the specification prescribes for `k` (reads only, no `==`)
pub fn reads_match(s: &Set, u: &Uni, k: &Know) -> bool {
    let mut ok = true;
    let rd = s.read();
    if !vc_is(&rd.add_clock, |a| k.seen[a as usize]) || !vc_is(&rd.rm_clock, |a| k.seen[a as usize]) {
        ok = false;
    }
    let mut n = 0usize;
    let mut m = 0u8;
    while m < NM {
        let p = present(u, k, m);
        if rd.val.contains(&m) != p {
            ok = false;
        }
        if p {
            n += 1;
        }
        let c = s.contains(&m);
        if c.val != p {
            ok = false;
        }
        if !vc_is(&c.rm_clock, |a| witness(u, k, m, a as usize)) {
            ok = false;
        }
        if !vc_is(&c.add_clock, |a| k.seen[a as usize]) {
            ok = false;
        }
        m += 1;
    }
    if rd.val.len() != n {
        ok = false;
    }
    // iter() hands out the same contexts
    let mut cnt = 0usize;
    for e in s.iter() {
        cnt += 1;
        let m = *e.val;
        if m >= NM || !present(u, k, m) {
            ok = false;
        } else if !vc_is(&e.rm_clock, |a| witness(u, k, m, a as usize)) || !vc_is(&e.add_clock, |a| k.seen[a as usize]) {
            ok = false;
        }
    }
    if cnt != n {
        ok = false;
    }
    ok
}

/// structural equality with the specified state (C20). What every read of a specified state returns is
/// settled separately by `h_orswot_reads` for all (U, K).
fn same(s: &Set, u: &Uni, k: &Know, flip: bool) -> bool {
    *s == spec(u, k, flip)
}

//@ harness props=C04,C07,C01 covers=3 name=Orswot reads: on SPEC(U,K), read/contains/iter return exactly the members with a surviving witness, their witness clocks as rm context and the knowledge clock as add context
#[no_mangle]
pub fn h_orswot_reads(inp: &Inp) -> u8 {
    let mut i = In::new(inp);
    let u = any_uni(&mut i);
    let k = any_know(&mut i, &u);
    let flip = i.bool();
    if !i.ok {
        return 2;
    }
    let s = spec(&u, &k, flip);
    if !reads_match(&s, &u, &k) {
        return 0;
    }
    // a pending remove or a removed member is invisible to reads
    if pending(&u, &k, 0) {
        3
    } else {
        1
    }
}

//@ harness props=C01,C04,C20 name=Orswot L_init: the empty set is SPEC(U, {})
#[no_mangle]
pub fn h_orswot_init(inp: &Inp) -> u8 {
    let mut i = In::new(inp);
    let u = any_uni(&mut i);
    if !i.ok {
        return 2;
    }
    let k = Know { seen: [0; NAU], rms: [false; NR] };
    let s: Set = Orswot::new();
    same(&s, &u, &k, false) as u8
}

//@ harness props=C01,C04,C08,C20 covers=3,4 name=Orswot L_apply(add): applying the next add of any actor to SPEC(U,K) gives SPEC(U,K+e) for every K (no causal assumption)
#[no_mangle]
pub fn h_orswot_apply_add(inp: &Inp) -> u8 {
    let mut i = In::new(inp);
    let u = any_uni(&mut i);
    let k = any_know(&mut i, &u);
    let flip = i.bool();
    let a = i.below(NA) as usize;
    i.assume(k.seen[a] < u.issued[a]);
    if !i.ok {
        return 2;
    }
    let mut s = spec(&u, &k, flip);
    let op = add_op(&u, a, k.seen[a] + 1);
    if s.validate_op(&op).is_err() {
        return 0;
    }
    s.apply(op);
    let mut k2 = k.clone();
    k2.seen[a] += 1;
    if !same(&s, &u, &k2, !flip) {
        return 0;
    }
    // cover: a pending remove became covered by this add / an add that a pending remove already kills
    let mut r = 0;
    let mut cov = 1;
    while r < NR {
        if pending(&u, &k, r) && !pending(&u, &k2, r) {
            cov = 3;
        } else if pending(&u, &k2, r) && (u.rm_mem[r] & u.mem[a][k.seen[a] as usize]) != 0 && cov == 1 {
            cov = 4;
        }
        r += 1;
    }
    cov
}

//@ harness props=C01,C04,C08,C20 covers=3,4 name=Orswot L_apply(rm): applying any not-yet-applied remove to SPEC(U,K) gives SPEC(U,K+e) for every K, including overtaking removes
#[no_mangle]
pub fn h_orswot_apply_rm(inp: &Inp) -> u8 {
    let mut i = In::new(inp);
    let u = any_uni(&mut i);
    let k = any_know(&mut i, &u);
    let flip = i.bool();
    let r = i.below(NR as u8) as usize;
    i.assume(!k.rms[r]);
    if !i.ok {
        return 2;
    }
    let mut s = spec(&u, &k, flip);
    let op = rm_op(&u, r);
    if s.validate_op(&op).is_err() {
        return 0;
    }
    s.apply(op);
    let mut k2 = k.clone();
    k2.rms[r] = true;
    if !same(&s, &u, &k2, !flip) {
        return 0;
    }
    if pending(&u, &k2, r) {
        3
    } else if present(&u, &k, 0) && !present(&u, &k2, 0) {
        4
    } else {
        1
    }
}

//@ harness props=C09,C04,C20 covers=3,4 name=Orswot L_dup: re-applying any already-applied add or remove leaves SPEC(U,K) unchanged (== and reads)
#[no_mangle]
pub fn h_orswot_dup(inp: &Inp) -> u8 {
    let mut i = In::new(inp);
    let u = any_uni(&mut i);
    let k = any_know(&mut i, &u);
    let flip = i.bool();
    let is_rm = i.bool();
    let a = i.below(NA) as usize;
    let c = i.below(NC as u8 + 1) as u64;
    let r = i.below(NR as u8) as usize;
    if is_rm {
        i.assume(k.rms[r]);
    } else {
        i.assume(c >= 1 && c <= k.seen[a]);
    }
    if !i.ok {
        return 2;
    }
    let mut s = spec(&u, &k, flip);
    let pre = s.clone();
    let op = if is_rm { rm_op(&u, r) } else { add_op(&u, a, c) };
    if s.validate_op(&op).is_err() {
        return 0;
    }
    s.apply(op);
    if s != pre {
        return 0;
    }
    if is_rm {
        3
    } else if !present(&u, &k, 0) && (u.mem[a][(c - 1) as usize] & 1) == 1 {
        4 // stale add of a removed member: must not resurrect
    } else {
        1
    }
}

/// compare one slice of two states: 0 = clock and table sizes, 1..=NM = the entry of member v-1,
/// NM+1 = the pending-remove table. All slices equal <=> `==` (derived, field-wise).
fn slice_eq(x: &Set, y: &Set, v: u8) -> bool {
    if v == 0 {
        // clock, and no member outside the universe (with the per-member slices this gives equal member
        // tables; the pending table including its size is the last slice)
        let mut foreign = false;
        for (m, _) in x.entries.iter() {
            if *m >= NM {
                foreign = true;
            }
        }
        x.clock == y.clock && !foreign
    } else if v <= NM {
        x.entries.get(&(v - 1)) == y.entries.get(&(v - 1))
    } else {
        x.deferred == y.deferred
    }
}

//@ harness props=C02,C03,C04,C07,C08,C09,C20 variants=NM+2 bounds=quick:small,thorough:small covers=3,4,5 name=Orswot L_merge: merge(SPEC(U,K1), SPEC(U,K2)) == SPEC(U, K1 u K2) for all knowledge pairs (incl. pending removes, stale and equal states); one output slice per variant
#[no_mangle]
pub fn h_orswot_merge(inp: &Inp) -> u8 {
    let mut i = In::new(inp);
    let v = i.variant(NM + 2);
    let u = any_uni(&mut i);
    let k1 = any_know(&mut i, &u);
    let k2 = any_know(&mut i, &u);
    let f1 = i.bool();
    let f2 = i.bool();
    if !i.ok {
        return 2;
    }
    let mut s = spec(&u, &k1, f1);
    let o = spec(&u, &k2, f2);
    s.merge(o);
    let k = union(&k1, &k2);
    if !slice_eq(&s, &spec(&u, &k, f1), v) {
        return 0;
    }
    if subset(&k2, &k1) {
        3 // stale / equal state absorbed
    } else if pending(&u, &k1, 0) || pending(&u, &k2, 0) {
        4
    } else if present(&u, &k2, 0) && !present(&u, &k, 0) {
        5 // the other side's element is dropped because we saw it removed
    } else {
        1
    }
}

//@ harness props=C07,C04,C16 covers=3 name=Orswot op generation from reads: add/add_all/rm/rm_all built from read(), read_ctx(), contains() contexts on SPEC(U,K) are exactly the universe ops (fresh next dot, remove context = what was observed)
#[no_mangle]
pub fn h_orswot_gen(inp: &Inp) -> u8 {
    let mut i = In::new(inp);
    let u = any_uni(&mut i);
    let k = any_know(&mut i, &u);
    let flip = i.bool();
    let a = i.below(NA);
    let m = i.below(NM);
    let mask = i.below(1 << NM);
    if !i.ok {
        return 2;
    }
    let s = spec(&u, &k, flip);
    let seen = k.seen[a as usize];
    // add context: next unused dot of the actor, not covered by the replica clock
    let actx = s.read().derive_add_ctx(a);
    if actx.dot.actor != a || actx.dot.counter != seen + 1 {
        return 0;
    }
    if !vc_is(&actx.clock, |x| if x == a { seen + 1 } else { k.seen[x as usize] }) {
        return 0;
    }
    if s.clock().get(&a) >= actx.dot.counter {
        return 0;
    }
    match s.add(m, actx) {
        Op::Add { dot, members } => {
            if dot != Dot::new(a, seen + 1) || members.len() != 1 || members[0] != m {
                return 0;
            }
        }
        _ => return 0,
    }
    match s.add_all(mask_vec(mask), s.read_ctx().derive_add_ctx(a)) {
        Op::Add { dot, members } => {
            if dot != Dot::new(a, seen + 1) || members != mask_vec(mask) {
                return 0;
            }
        }
        _ => return 0,
    }
    // its own op is valid at its origin
    if s.validate_op(&s.add(m, s.read().derive_add_ctx(a))).is_err() {
        return 0;
    }
    // remove contexts: element context = surviving witnesses (empty iff absent), never above the add context
    let c = s.contains(&m);
    if c.val != present(&u, &k, m) || c.rm_clock.is_empty() == c.val {
        return 0;
    }
    if !(c.rm_clock <= c.add_clock) {
        return 0;
    }
    let was_present = c.val;
    match s.rm(m, c.derive_rm_ctx()) {
        Op::Rm { clock, members } => {
            if !vc_is(&clock, |x| witness(&u, &k, m, x as usize)) || members.len() != 1 || members[0] != m {
                return 0;
            }
        }
        _ => return 0,
    }
    match s.rm_all(mask_vec(mask), s.read().derive_rm_ctx()) {
        Op::Rm { clock, members } => {
            if !vc_is(&clock, |x| k.seen[x as usize]) || members != mask_vec(mask) {
                return 0;
            }
        }
        _ => return 0,
    }
    if s.validate_op(&s.rm(m, s.contains(&m).derive_rm_ctx())).is_err() {
        return 0;
    }
    if !was_present {
        3
    } else {
        1
    }
}

//@ harness props=C16 covers=3,4 name=Orswot validate_op on SPEC(U,K): Ok for every add whose dot does not skip a counter (next, duplicate, old) and for every remove; DotRange exactly for a gap
#[no_mangle]
pub fn h_orswot_validate_op(inp: &Inp) -> u8 {
    let mut i = In::new(inp);
    let u = any_uni(&mut i);
    let k = any_know(&mut i, &u);
    let a = i.below(NA);
    let c = 1 + i.below(NC as u8 + 1) as u64;
    let mask = i.below(1 << NM);
    let ctx = any_vclock(&mut i);
    if !i.ok {
        return 2;
    }
    let s = spec(&u, &k, false);
    let seen = k.seen[a as usize];
    let op = Op::Add { dot: Dot::new(a, c), members: mask_vec(mask) };
    match s.validate_op(&op) {
        Ok(()) => {
            if c > seen + 1 {
                return 0;
            }
        }
        Err(e) => {
            if c <= seen + 1 || e.actor != a || e.counter_range.start != seen + 1 || e.counter_range.end != c {
                return 0;
            }
        }
    }
    if s.validate_op(&Op::Rm { clock: ctx, members: mask_vec(mask) }).is_err() {
        return 0;
    }
    if c > seen + 1 {
        3
    } else if c <= seen {
        4
    } else {
        1
    }
}

/// some dot is the current witness of member m in x and of a different member in y
fn double_spent(x: &Set, y: &Set) -> bool {
    let mut r = false;
    let mut m = 0u8;
    while m < NM {
        let mut n = 0u8;
        while n < NM {
            if m != n {
                let mut a = 0u8;
                while a < NA {
                    let c = vget(&x.contains(&m).rm_clock, a);
                    if c != 0 && c == vget(&y.contains(&n).rm_clock, a) {
                        r = true;
                    }
                    a += 1;
                }
            }
            n += 1;
        }
        m += 1;
    }
    r
}

/// known-finding role (D4): the flagged dot belongs to ONE add that carried several members (`add_all`),
/// i.e. correct use of the library's own API
fn kf_add_all(u: &Uni) -> bool {
    let mut r = false;
    let mut a = 0;
    while a < NAU {
        let mut c = 0;
        while c < NCU {
            let m = u.mem[a][c];
            if (c as u64) < u.issued[a] && m & (m.wrapping_sub(1)) != 0 {
                r = true;
            }
            c += 1;
        }
        a += 1;
    }
    r
}

//@ harness props=C17 covers=3 kf=201 name=Orswot validate_merge under correct use: Ok for every pair SPEC(U,K1), SPEC(U,K2) and the same verdict in both directions
#[no_mangle]
pub fn h_orswot_validate_merge(inp: &Inp) -> u8 {
    let mut i = In::new(inp);
    let u = any_uni(&mut i);
    let k1 = any_know(&mut i, &u);
    let k2 = any_know(&mut i, &u);
    if !i.ok {
        return 2;
    }
    let x = spec(&u, &k1, false);
    let y = spec(&u, &k2, true);
    let v1 = x.validate_merge(&y).is_err();
    let v2 = y.validate_merge(&x).is_err();
    if v1 != v2 {
        return 0;
    }
    // flags exactly the double-spent dots (soundness of the scan)
    if v1 != double_spent(&x, &y) {
        return 0;
    }
    if v1 {
        // correct use must be accepted
        if kf_add_all(&u) {
            return 201;
        }
        return 0;
    }
    if x.read().val.len() > 0 && y.read().val.len() > 0 {
        3
    } else {
        1
    }
}

//@ harness props=C17 covers=3,4 name=Orswot validate_merge under misuse (one actor id driven independently at two replicas): error in both directions whenever a dot is the current witness of different members, Ok otherwise
#[no_mangle]
pub fn h_orswot_validate_merge_misuse(inp: &Inp) -> u8 {
    let mut i = In::new(inp);
    let u1 = any_uni(&mut i);
    let k1 = any_know(&mut i, &u1);
    let u2 = any_uni(&mut i);
    let k2 = any_know(&mut i, &u2);
    if !i.ok {
        return 2;
    }
    let x = spec(&u1, &k1, false);
    let y = spec(&u2, &k2, false);
    let v1 = x.validate_merge(&y).is_err();
    let v2 = y.validate_merge(&x).is_err();
    let ds = double_spent(&x, &y);
    if v1 != v2 || v1 != ds {
        return 0;
    }
    if let Err(crate::orswot::Validation::DoubleSpentDot { dot, our_member, their_member }) = x.validate_merge(&y) {
        // the reported dot really is double spent
        if our_member == their_member
            || vget(&x.contains(&our_member).rm_clock, dot.actor) != dot.counter
            || vget(&y.contains(&their_member).rm_clock, dot.actor) != dot.counter
        {
            return 0;
        }
    }
    if ds {
        3
    } else if !x.read().val.is_empty() && !y.read().val.is_empty() {
        4
    } else {
        1
    }
}

//@ harness props=C01,C05,C18 covers=3,4 name=Orswot reset_remove(c) on SPEC(U,K) for any clock c (below, above, concurrent): clock, member witnesses and pending contexts lose exactly the covered dots; emptied members / pending removes vanish; empty clock no-op; own clock empties; c1 then c2 = join; idempotent
#[no_mangle]
pub fn h_orswot_reset_remove(inp: &Inp) -> u8 {
    use crate::ResetRemove;
    let mut i = In::new(inp);
    let u = any_uni(&mut i);
    let k = any_know(&mut i, &u);
    let flip = i.bool();
    let c = any_vclock(&mut i);
    let c2 = any_vclock(&mut i);
    if !i.ok {
        return 2;
    }
    let s = spec(&u, &k, flip);
    let mut r = s.clone();
    r.reset_remove(&c);
    let keep = |v: u64, a: u8| if v > vget(&c, a) { v } else { 0 };
    if !vc_is(&r.clock, |a| keep(k.seen[a as usize], a)) {
        return 0;
    }
    let mut m = 0u8;
    let mut emptied = false;
    while m < NM {
        let got = r.contains(&m);
        if !vc_is(&got.rm_clock, |a| keep(witness(&u, &k, m, a as usize), a)) {
            return 0;
        }
        if got.val == got.rm_clock.is_empty() {
            return 0;
        }
        if present(&u, &k, m) && !got.val {
            emptied = true;
        }
        m += 1;
    }
    // pending removes: context minus covered dots, dropped when nothing is left
    let mut want: HashMap<Vc, HashSet<u8>> = HashMap::new();
    let mut q = 0;
    while q < NR {
        if pending(&u, &k, q) {
            let ctx = vc_from(|a| keep(u.rm_ctx[q][a as usize], a));
            if !ctx.is_empty() {
                let set = want.entry(ctx).or_default();
                let mut m = 0u8;
                while m < NM {
                    if (u.rm_mem[q] >> m) & 1 == 1 {
                        set.insert(m);
                    }
                    m += 1;
                }
            }
        }
        q += 1;
    }
    if r.deferred != want {
        return 0;
    }
    // algebra
    let mut r2 = r.clone();
    r2.reset_remove(&c);
    if r2 != r {
        return 0;
    }
    let mut e = s.clone();
    e.reset_remove(&VClock::new());
    if e != s {
        return 0;
    }
    let mut x = s.clone();
    x.reset_remove(&c);
    x.reset_remove(&c2);
    let mut j = c.clone();
    j.merge(c2.clone());
    let mut y = s.clone();
    y.reset_remove(&j);
    if x != y {
        return 0;
    }
    if emptied {
        3
    } else if pending(&u, &k, 0) {
        4
    } else {
        1
    }
}

//@ harness props=C01,C03,C04,C08,C09,C20 covers=3 name=Orswot L_apply(rm, equal context): a second remove that carries the SAME context as an already applied (possibly pending) remove but other members acts like one remove of the union of the members
#[no_mangle]
pub fn h_orswot_apply_rm_same_ctx(inp: &Inp) -> u8 {
    let mut i = In::new(inp);
    let u = any_uni(&mut i);
    let k = any_know(&mut i, &u);
    let flip = i.bool();
    let mask2 = i.below(1 << NM);
    i.assume(k.rms[0]);
    if !i.ok {
        return 2;
    }
    let mut s = spec(&u, &k, flip);
    let op = Op::Rm { clock: vc_from(|a| u.rm_ctx[0][a as usize]), members: mask_vec(mask2) };
    if s.validate_op(&op).is_err() {
        return 0;
    }
    s.apply(op);
    let mut u2 = u.clone();
    u2.rm_mem[0] |= mask2;
    if !same(&s, &u2, &k, !flip) {
        return 0;
    }
    if pending(&u, &k, 0) && (mask2 & !u.rm_mem[0]) != 0 {
        3 // the pending remove gains members
    } else {
        1
    }
}


/// finer slices: 0..NM*NA-1 = witness of member v/NA by actor v%NA (and presence / well-formedness of the
/// member's clock), NM*NA = the pending-remove table. The clock slice is decided by `h_orswot_merge`.
fn fine_slice_eq(x: &Set, y: &Set, v: u8) -> bool {
    if v < NM * NA {
        let m = v / NA;
        let a = v % NA;
        let cx = x.entries.get(&m);
        let cy = y.entries.get(&m);
        cx.is_some() == cy.is_some() && cx.map(|c| vget(c, a)) == cy.map(|c| vget(c, a)) && cx.map(|c| wf(c)) == cy.map(|c| wf(c))
    } else {
        x.deferred == y.deferred
    }
}

//@ harness props=C02,C03,C04,C07,C08,C09,C20 tiers=thorough variants=NM*NA+1 bounds=thorough:base covers=3,4,5 name=Orswot L_merge with 3 actors (per-witness and pending-table slices): merge(SPEC(U,K1), SPEC(U,K2)) == SPEC(U, K1 u K2) for all knowledge pairs
#[no_mangle]
pub fn h_orswot_merge3(inp: &Inp) -> u8 {
    let mut i = In::new(inp);
    let v = i.variant(NM * NA + 1);
    let u = any_uni(&mut i);
    let k1 = any_know(&mut i, &u);
    let k2 = any_know(&mut i, &u);
    let f1 = i.bool();
    let f2 = i.bool();
    if !i.ok {
        return 2;
    }
    let mut s = spec(&u, &k1, f1);
    let o = spec(&u, &k2, f2);
    s.merge(o);
    let k = union(&k1, &k2);
    if !fine_slice_eq(&s, &spec(&u, &k, f1), v) {
        return 0;
    }
    if subset(&k2, &k1) {
        3
    } else if pending(&u, &k1, 0) || pending(&u, &k2, 0) {
        4
    } else if present(&u, &k2, 0) && !present(&u, &k, 0) {
        5
    } else {
        1
    }
}
