//! access shim (child module of `merkle_reg`)
use super::{Hash, MerkleReg, Node};
use crate::serde_helper::SerDe;
use std::collections::{BTreeMap, BTreeSet};
pub fn from_parts<T: SerDe>(roots: BTreeSet<Hash>, dag: BTreeMap<Hash, Node<T>>, orphans: BTreeMap<Hash, Node<T>>) -> MerkleReg<T> {
    MerkleReg { roots, dag, orphans }
}
pub fn parts<T: SerDe>(r: &MerkleReg<T>) -> (&BTreeSet<Hash>, &BTreeMap<Hash, Node<T>>, &BTreeMap<Hash, Node<T>>) {
    (&r.roots, &r.dag, &r.orphans)
}
