//! Native runner for the harnesses: replays solver models and runs seeded random inputs.
//!   vreplay run <harness> <hex-input> [--trace]     -> prints `ret=<n>` or `ret=panic`
//!   vreplay fuzz <harness> <seed> <count>           -> prints one line of return-code counts + digest
//!   vreplay batch                                   -> reads `<harness> <hex>` lines, prints `ret=` lines
//!   vreplay list
use crdts::vh::common::{Inp, NIN};
use std::io::BufRead;

fn find(name: &str) -> fn(&Inp) -> u8 {
    for (n, f) in crdts::vh::HARNESSES.iter() {
        if *n == name {
            return *f;
        }
    }
    eprintln!("unknown harness {}", name);
    std::process::exit(3);
}

fn parse_hex(s: &str) -> Inp {
    let mut b = [0u8; NIN];
    let bytes = s.as_bytes();
    let mut i = 0;
    while i < NIN && 2 * i + 1 < bytes.len() {
        b[i] = u8::from_str_radix(&s[2 * i..2 * i + 2], 16).expect("hex");
        i += 1;
    }
    b
}

fn run1(f: fn(&Inp) -> u8, inp: &Inp) -> Option<u8> {
    let inp = *inp;
    std::panic::catch_unwind(move || f(&inp)).ok()
}

struct Rng(u64);
impl Rng {
    fn next(&mut self) -> u64 {
        // splitmix64
        self.0 = self.0.wrapping_add(0x9E3779B97F4A7C15);
        let mut z = self.0;
        z = (z ^ (z >> 30)).wrapping_mul(0xBF58476D1CE4E5B9);
        z = (z ^ (z >> 27)).wrapping_mul(0x94D049BB133111EB);
        z ^ (z >> 31)
    }
}

fn main() {
    let args: Vec<String> = std::env::args().collect();
    if args.len() < 2 {
        eprintln!("usage: vreplay run|fuzz|batch|list ...");
        std::process::exit(3);
    }
    match args[1].as_str() {
        "list" => {
            for (n, _) in crdts::vh::HARNESSES.iter() {
                println!("{}", n);
            }
        }
        "run" => {
            let f = find(&args[2]);
            let inp = parse_hex(&args[3]);
            #[cfg(not(vmodel))]
            if args.iter().any(|a| a == "--trace") {
                crdts::vh::common::TRACE.store(true, std::sync::atomic::Ordering::Relaxed);
            }
            match run1(f, &inp) {
                Some(r) => println!("ret={}", r),
                None => println!("ret=panic"),
            }
        }
        "batch" => {
            std::panic::set_hook(Box::new(|_| {}));
            let stdin = std::io::stdin();
            for line in stdin.lock().lines() {
                let line = line.unwrap();
                let mut it = line.split_whitespace();
                let (Some(h), Some(x)) = (it.next(), it.next()) else { continue };
                let f = find(h);
                match run1(f, &parse_hex(x)) {
                    Some(r) => println!("ret={}", r),
                    None => println!("ret=panic"),
                }
            }
        }
        "fuzz" => {
            std::panic::set_hook(Box::new(|_| {}));
            let f = find(&args[2]);
            let seed: u64 = args[3].parse().unwrap();
            let count: u64 = args[4].parse().unwrap();
            let mut rng = Rng(seed ^ 0xC0FFEE);
            let mut counts = [0u64; 258];
            let mut digest: u64 = 0xcbf29ce484222325;
            let mut first_zero: Option<Inp> = None;
            for _ in 0..count {
                let mut inp = [0u8; NIN];
                let small = 2 + (rng.next() % 4) as u8;
                for b in inp.iter_mut() {
                    let r = rng.next();
                    *b = if r % 16 == 0 { (r >> 8) as u8 } else { ((r >> 8) as u8) % small };
                }
                let r = match run1(f, &inp) {
                    Some(r) => r as usize,
                    None => 257,
                };
                if (r == 0 || r == 257) && first_zero.is_none() {
                    first_zero = Some(inp);
                }
                counts[r] += 1;
                digest = (digest ^ (r as u64)).wrapping_mul(0x100000001b3);
            }
            let mut s = String::new();
            for (k, c) in counts.iter().enumerate() {
                if *c > 0 {
                    s.push_str(&format!("{}:{} ", if k == 257 { "panic".to_string() } else { k.to_string() }, c));
                }
            }
            let fz = match first_zero {
                Some(i) => i.iter().map(|b| format!("{:02x}", b)).collect::<String>(),
                None => "-".to_string(),
            };
            println!("counts {} digest={:016x} first_bad={}", s.trim(), digest, fz);
        }
        _ => {
            eprintln!("unknown command");
            std::process::exit(3);
        }
    }
}
