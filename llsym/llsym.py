#!/usr/bin/env python3
"""PROTOTYPE llsym: merging symbolic executor for rustc-emitted LLVM IR (text), z3 back end.

Scope: single module, panic=abort, no vectors/floats/atomics. Memory is a set of objects with
concrete sizes; pointers are 64-bit values (object id << 32 | offset).
"""
import re, sys, time, itertools, os
import z3
import sx
from sx import E

sys.setrecursionlimit(100000)

# ----------------------------------------------------------------------------- tokenizer
TOK = re.compile(r'''
    \s*(?:
      (?P<str>c"(?:[^"\\]|\\[0-9A-Fa-f]{2}|\\\\)*")
    | (?P<name>[%@](?:"[^"]*"|[-\w.$]+))
    | (?P<meta>![-\w.$]*(?:"[^"]*")?)
    | (?P<attr>\#\d+)
    | (?P<num>-?\d+(?![\w.]))
    | (?P<word>[A-Za-z_][\w.]*)
    | (?P<dots>\.\.\.)
    | (?P<punct>[(),\[\]{}<>=*:])
    )''', re.X)


def tokenize(s):
    out = []
    pos = 0
    n = len(s)
    while pos < n:
        m = TOK.match(s, pos)
        if not m:
            if s[pos:].strip() == '':
                break
            raise ValueError('tokenize: %r at %r' % (s[pos:pos + 40], s))
        pos = m.end()
        k = m.lastgroup
        out.append((k, m.group(k)))
    return out


def strip_comment(line):
    # ';' starts a comment unless inside a string
    if ';' not in line:
        return line
    out = []
    inq = False
    for ch in line:
        if ch == '"':
            inq = not inq
        if ch == ';' and not inq:
            break
        out.append(ch)
    return ''.join(out)


# ----------------------------------------------------------------------------- types
class Ty:
    pass


class IntTy(Ty):
    def __init__(self, bits):
        self.bits = bits

    def __repr__(self):
        return 'i%d' % self.bits


class PtrTy(Ty):
    bits = 64

    def __repr__(self):
        return 'ptr'


class VoidTy(Ty):
    def __repr__(self):
        return 'void'


class ArrTy(Ty):
    def __init__(self, n, el):
        self.n, self.el = n, el

    def __repr__(self):
        return '[%d x %r]' % (self.n, self.el)


class StructTy(Ty):
    def __init__(self, els, packed=False):
        self.els, self.packed = els, packed

    def __repr__(self):
        return '{%s}' % ', '.join(map(repr, self.els))


class NamedTy(Ty):
    def __init__(self, name, mod):
        self.name, self.mod = name, mod

    def resolve(self):
        return self.mod.types[self.name]

    def __repr__(self):
        return self.name


PTR = PtrTy()
VOID = VoidTy()


def rty(t):
    while isinstance(t, NamedTy):
        t = t.resolve()
    return t


def ty_align(t):
    t = rty(t)
    if isinstance(t, IntTy):
        s = (t.bits + 7) // 8
        a = 1
        while a < s:
            a *= 2
        return min(a, 16)
    if isinstance(t, PtrTy):
        return 8
    if isinstance(t, ArrTy):
        return ty_align(t.el)
    if isinstance(t, StructTy):
        if t.packed or not t.els:
            return 1
        return max(ty_align(e) for e in t.els)
    raise ValueError(t)


def ty_size(t):
    t = rty(t)
    if isinstance(t, IntTy):
        s = (t.bits + 7) // 8
        a = ty_align(t)
        return (s + a - 1) // a * a
    if isinstance(t, PtrTy):
        return 8
    if isinstance(t, ArrTy):
        return t.n * ty_size(t.el)
    if isinstance(t, StructTy):
        off = 0
        for e in t.els:
            if not t.packed:
                a = ty_align(e)
                off = (off + a - 1) // a * a
            off += ty_size(e)
        if not t.packed and t.els:
            a = ty_align(t)
            off = (off + a - 1) // a * a
        return off
    if isinstance(t, VoidTy):
        return 0
    raise ValueError(t)


def ty_store_size(t):
    t = rty(t)
    if isinstance(t, IntTy):
        return (t.bits + 7) // 8
    return ty_size(t)


def struct_offsets(t):
    t = rty(t)
    offs = []
    off = 0
    for e in t.els:
        if not t.packed:
            a = ty_align(e)
            off = (off + a - 1) // a * a
        offs.append(off)
        off += ty_size(e)
    return offs


# ----------------------------------------------------------------------------- parser
class P:
    """token cursor"""

    def __init__(self, toks, mod):
        self.t, self.i, self.mod = toks, 0, mod

    def peek(self, k=0):
        return self.t[self.i + k] if self.i + k < len(self.t) else (None, None)

    def next(self):
        x = self.t[self.i]
        self.i += 1
        return x

    def accept(self, v):
        if self.peek()[1] == v:
            self.i += 1
            return True
        return False

    def expect(self, v):
        x = self.next()
        if x[1] != v:
            raise ValueError('expected %r got %r in %r' % (v, x, self.t))

    def eof(self):
        return self.i >= len(self.t)

    # ---- types
    def ty(self):
        k, v = self.next()
        if k == 'word':
            if re.fullmatch(r'i\d+', v):
                t = IntTy(int(v[1:]))
            elif v == 'ptr':
                t = PTR
                if self.peek()[1] == 'addrspace':
                    self.next(); self.expect('('); self.next(); self.expect(')')
            elif v == 'void':
                t = VOID
            else:
                raise ValueError('type? %r in %r' % (v, self.t))
        elif k == 'name' and v.startswith('%'):
            t = NamedTy(v, self.mod)
        elif v == '[':
            n = int(self.next()[1])
            self.expect('x')
            el = self.ty()
            self.expect(']')
            t = ArrTy(n, el)
        elif v == '{':
            els = []
            if not self.accept('}'):
                while True:
                    els.append(self.ty())
                    if self.accept('}'):
                        break
                    self.expect(',')
            t = StructTy(els)
        elif v == '<':
            if self.peek()[1] == '{':
                self.next()
                els = []
                if not self.accept('}'):
                    while True:
                        els.append(self.ty())
                        if self.accept('}'):
                            break
                        self.expect(',')
                self.expect('>')
                t = StructTy(els, packed=True)
            else:
                raise ValueError('vector types unsupported: %r' % (self.t,))
        else:
            raise ValueError('type? %r %r' % ((k, v), self.t))
        # function type suffix e.g. "void (ptr, i64)"
        if self.peek()[1] == '(' and isinstance(t, (IntTy, PtrTy, VoidTy, StructTy, NamedTy)):
            # only when followed by a type list then ')' and then a callee; used in call fnty
            save = self.i
            try:
                self.next()
                if not self.accept(')'):
                    while True:
                        if self.peek()[1] == '...':
                            self.next()
                        else:
                            self.ty()
                        if self.accept(')'):
                            break
                        self.expect(',')
                t = ('fn', t)
            except Exception:
                self.i = save
        return t

    ATTR_WORDS_WITH_PAREN = {'dereferenceable', 'dereferenceable_or_null', 'captures', 'range', 'align',
                             'sret', 'byval', 'byref', 'inalloca', 'preallocated', 'elementtype',
                             'initializes', 'memory', 'nofpclass', 'allocsize', 'alloc-family'}
    VALUE_WORDS = {'true', 'false', 'null', 'undef', 'poison', 'zeroinitializer', 'getelementptr',
                   'ptrtoint', 'inttoptr', 'bitcast', 'icmp', 'select', 'add', 'sub', 'trunc', 'zext', 'sext'}

    def skip_attrs(self):
        while True:
            k, v = self.peek()
            if k == 'word' and v not in self.VALUE_WORDS:
                self.next()
                if v == 'align' and self.peek()[0] == 'num':
                    self.next()
                elif self.peek()[1] == '(':
                    depth = 0
                    while True:
                        _, x = self.next()
                        if x == '(':
                            depth += 1
                        elif x == ')':
                            depth -= 1
                            if depth == 0:
                                break
            elif k == 'attr':
                self.next()
            else:
                break

    # ---- values: returns an operand descriptor
    def value(self, ty):
        k, v = self.next()
        if k == 'name':
            return ('reg', v) if v[0] == '%' else ('glob', v)
        if k == 'num':
            return ('int', int(v))
        if k == 'word':
            if v == 'true':
                return ('int', 1)
            if v == 'false':
                return ('int', 0)
            if v == 'null':
                return ('int', 0)
            if v in ('undef', 'poison'):
                return ('undef', ty)
            if v == 'zeroinitializer':
                return ('zero', ty)
            if v == 'getelementptr':
                self.skip_gep_flags()
                self.expect('(')
                bty = self.ty()
                self.expect(',')
                pt = self.ty()
                base = self.value(pt)
                idx = []
                while self.accept(','):
                    it = self.ty()
                    idx.append((it, self.value(it)))
                self.expect(')')
                return ('cgep', bty, base, idx)
            if v in ('ptrtoint', 'inttoptr', 'bitcast'):
                self.expect('(')
                t1 = self.ty()
                x = self.value(t1)
                self.expect('to')
                self.ty()
                self.expect(')')
                return x
            raise ValueError('value word %r in %r' % (v, self.t))
        if k == 'str':
            return ('bytes', parse_cstr(v))
        if v == '{' or (v == '<' and self.peek()[1] == '{'):
            packed = (v == '<')
            if packed:
                self.next()
            els = []
            if not self.accept('}'):
                while True:
                    t = self.ty()
                    els.append((t, self.value(t)))
                    if self.accept('}'):
                        break
                    self.expect(',')
            if packed:
                self.expect('>')
            return ('agg', els)
        if v == '[':
            els = []
            if not self.accept(']'):
                while True:
                    t = self.ty()
                    els.append((t, self.value(t)))
                    if self.accept(']'):
                        break
                    self.expect(',')
            return ('agg', els)
        raise ValueError('value? %r in %r' % ((k, v), self.t))

    def skip_gep_flags(self):
        while self.peek()[1] in ('inbounds', 'nuw', 'nusw', 'inrange'):
            w = self.next()[1]
            if w == 'inrange' and self.peek()[1] == '(':
                while self.next()[1] != ')':
                    pass

    def typed_value(self):
        t = self.ty()
        self.skip_attrs()
        return t, self.value(t)


def skip_pre_type_attrs(p):
    """skip linkage / cc / return attributes that precede a return type"""
    while True:
        k, v = p.peek()
        if k == 'word' and not re.fullmatch(r'i\d+|ptr|void', v):
            p.next()
            if v == 'align' and p.peek()[0] == 'num':
                p.next()
            elif p.peek()[1] == '(':
                depth = 0
                while True:
                    _, x = p.next()
                    if x == '(':
                        depth += 1
                    elif x == ')':
                        depth -= 1
                        if depth == 0:
                            break
            continue
        break


def parse_cstr(s):
    s = s[2:-1]
    out = bytearray()
    i = 0
    while i < len(s):
        if s[i] == '\\':
            if s[i + 1] == '\\':
                out.append(92)
                i += 2
            else:
                out.append(int(s[i + 1:i + 3], 16))
                i += 3
        else:
            out.append(ord(s[i]))
            i += 1
    return bytes(out)


class Instr:
    __slots__ = ('op', 'res', 'a', 'line')

    def __init__(self, op, res, a, line):
        self.op, self.res, self.a, self.line = op, res, a, line


class Func:
    def __init__(self, name, params, retty):
        self.name, self.params, self.retty = name, params, retty
        self.blocks = {}  # label -> [Instr]
        self.order = []
        self.rbits = {}
        self.raw = None
        self.mod = None


class Module:
    def __init__(self):
        self.types = {}
        self.globals = {}  # name -> (ty, init operand, align)
        self.aliases = {}
        self.funcs = {}
        self.decls = set()


BINOPS = {'add', 'sub', 'mul', 'udiv', 'sdiv', 'urem', 'srem', 'and', 'or', 'xor', 'shl', 'lshr', 'ashr'}
CASTS = {'zext', 'sext', 'trunc', 'ptrtoint', 'inttoptr', 'bitcast'}
FLAGS = {'nuw', 'nsw', 'exact', 'disjoint', 'nneg', 'samesign', 'inbounds', 'nusw', 'volatile'}


def strip_meta(toks):
    # drop trailing ", !meta !N" sequences at top level
    out = []
    i = 0
    depth = 0
    while i < len(toks):
        k, v = toks[i]
        if v in '([{<' and k == 'punct':
            depth += 1
        if v in ')]}>' and k == 'punct':
            depth -= 1
        if k == 'punct' and v == ',' and i + 1 < len(toks) and toks[i + 1][0] == 'meta':
            # skip ", !name !N" (pairs)
            i += 1
            while i < len(toks) and toks[i][0] == 'meta':
                i += 1
            continue
        out.append(toks[i])
        i += 1
    return out


def parse_module(text):
    mod = Module()
    lines = text.split('\n')
    i = 0
    n = len(lines)
    while i < n:
        line = strip_comment(lines[i]).rstrip()
        i += 1
        if not line.strip():
            continue
        if line.startswith(('target ', 'source_filename', '!', 'attributes ', 'module asm', 'uselistorder')):
            continue
        if line.startswith('%') and ' = type ' in line:
            name, rest = line.split(' = type ', 1)
            if rest.strip() == 'opaque':
                continue
            p = P(tokenize(rest), mod)
            mod.types[name.strip()] = p.ty()
            continue
        if line.startswith('@'):
            toks = strip_meta(tokenize(line))
            p = P(toks, mod)
            name = p.next()[1]
            p.expect('=')
            words = []
            while p.peek()[0] == 'word' and p.peek()[1] not in ('constant', 'global', 'alias'):
                w = p.next()[1]
                if p.peek()[1] == '(':
                    while p.next()[1] != ')':
                        pass
                words.append(w)
            kind = p.next()[1]
            if kind == 'alias':
                p.ty()
                p.expect(',')
                t = p.ty()
                tgt = p.value(t)
                mod.aliases[name] = tgt[1]
                continue
            t = p.ty()
            if p.eof() or p.peek()[1] == ',':
                init = ('undef', t)  # external global
            else:
                init = p.value(t)
            mod.globals[name] = (t, init)
            continue
        if line.startswith('declare'):
            m = re.search(r'(@(?:"[^"]*"|[-\w.$]+))\s*\(', line)
            mod.decls.add(m.group(1))
            continue
        if line.startswith('define'):
            toks = strip_meta(tokenize(line.rstrip('{').rstrip()))
            p = P(toks, mod)
            p.expect('define')
            # skip linkage etc until type: find the function name token then parse backwards is hard; do forward skipping
            p.skip_attrs_until_type = None
            # attributes words before return type
            skip_pre_type_attrs(p)
            retty = p.ty()
            name = p.next()[1]
            p.expect('(')
            params = []
            if not p.accept(')'):
                while True:
                    if p.peek()[1] == '...':
                        p.next()
                    else:
                        t = p.ty()
                        p.skip_attrs()
                        pname = p.next()[1]
                        params.append((t, pname))
                    if p.accept(')'):
                        break
                    p.expect(',')
            f = Func(name, params, retty)
            f.mod = mod
            body = []
            while i < n:
                raw = lines[i]
                i += 1
                if raw.startswith('}'):
                    break
                body.append(raw)
            f.raw = body
            mod.funcs[name] = f
            continue
        raise ValueError('unparsed top-level line: %r' % line[:200])
    return mod


def parse_body(f):
    """parse the instructions of a function on first use"""
    if f.raw is None:
        return
    mod = f.mod
    lines = f.raw
    f.raw = None
    params = f.params
    n = len(lines)
    i = 0
    if True:
        if True:
            cur = None
            while i < n:
                raw = strip_comment(lines[i]).rstrip()
                i += 1
                if not raw.strip():
                    continue
                s = raw.strip()
                m = re.fullmatch(r'((?:"[^"]*"|[-\w.$]+)):.*', s) if not raw.startswith(' ') else None
                if m:
                    cur = '%' + m.group(1)
                    f.blocks[cur] = []
                    f.order.append(cur)
                    continue
                if cur is None:
                    cur = '%__entry'
                    f.blocks[cur] = []
                    f.order.append(cur)
                # multi-line switch
                if s.startswith('switch') and s.endswith('['):
                    while True:
                        nxt = strip_comment(lines[i]).strip()
                        i += 1
                        s += ' ' + nxt
                        if nxt.startswith(']'):
                            break
                f.blocks[cur].append(parse_instr(s, mod))
            for (pt, pn) in params:
                f.rbits[pn] = getattr(rty(pt), 'bits', None) if not isinstance(pt, tuple) else 64
            for bl in f.blocks.values():
                for ins in bl:
                    if ins.res is None:
                        continue
                    o, a = ins.op, ins.a
                    t = None
                    if o in ('load', 'phi', 'select', 'freeze'):
                        t = a[0]
                    elif o in ('gep', 'alloca'):
                        t = PTR
                    elif o == 'icmp':
                        t = IntTy(1)
                    elif o == 'bin':
                        t = a[1]
                    elif o == 'cast':
                        t = a[3]
                    elif o == 'call':
                        t = a[0]
                    f.rbits[ins.res] = getattr(t, 'bits', None) if t is not None and not isinstance(t, NamedTy) else None


def parse_instr(s, mod):
    toks = strip_meta(tokenize(s))
    p = P(toks, mod)
    res = None
    if p.peek()[0] == 'name' and p.peek(1)[1] == '=':
        res = p.next()[1]
        p.next()
    k, op = p.next()
    if op in ('tail', 'musttail', 'notail'):
        k, op = p.next()
    if op == 'call':
        skip_pre_type_attrs(p)
        rt = p.ty()
        if isinstance(rt, tuple):
            rt = rt[1]
        callee = p.value(PTR)
        p.expect('(')
        args = []
        if not p.accept(')'):
            while True:
                if p.peek()[0] == 'meta' or p.peek()[1] == 'metadata':
                    # metadata arg
                    while p.peek()[1] not in (',', ')'):
                        p.next()
                    args.append((None, ('meta', None)))
                else:
                    args.append(p.typed_value())
                if p.accept(')'):
                    break
                p.expect(',')
        return Instr('call', res, (rt, callee, args), s)
    if op == 'alloca':
        t = p.ty()
        cnt = None
        align = 1
        while p.accept(','):
            if p.peek()[1] == 'align':
                p.next()
                align = int(p.next()[1])
            else:
                ct = p.ty()
                cnt = p.value(ct)
        return Instr('alloca', res, (t, cnt, align), s)
    if op == 'load':
        while p.peek()[1] in ('volatile', 'atomic'):
            p.next()
        t = p.ty()
        p.expect(',')
        pt, pv = p.typed_value()
        align = 1
        if p.accept(','):
            if p.accept('align'):
                align = int(p.next()[1])
        return Instr('load', res, (t, pv, align), s)
    if op == 'store':
        while p.peek()[1] in ('volatile', 'atomic'):
            p.next()
        t, v = p.typed_value()
        p.expect(',')
        pt, pv = p.typed_value()
        align = 1
        if p.accept(','):
            if p.accept('align'):
                align = int(p.next()[1])
        return Instr('store', None, (t, v, pv, align), s)
    if op == 'getelementptr':
        p.skip_gep_flags()
        bt = p.ty()
        p.expect(',')
        pt, pv = p.typed_value()
        idx = []
        while p.accept(','):
            idx.append(p.typed_value())
        return Instr('gep', res, (bt, pv, idx), s)
    if op == 'icmp':
        if p.peek()[1] == 'samesign':
            p.next()
        pred = p.next()[1]
        t = p.ty()
        a = p.value(t)
        p.expect(',')
        b = p.value(t)
        return Instr('icmp', res, (pred, t, a, b), s)
    if op == 'br':
        if p.peek()[1] == 'label':
            p.next()
            return Instr('br', None, (p.next()[1],), s)
        t, c = p.typed_value()
        p.expect(',')
        p.expect('label')
        a = p.next()[1]
        p.expect(',')
        p.expect('label')
        b = p.next()[1]
        return Instr('condbr', None, (c, a, b), s)
    if op == 'switch':
        t, v = p.typed_value()
        p.expect(',')
        p.expect('label')
        d = p.next()[1]
        p.expect('[')
        cases = []
        while not p.accept(']'):
            ct = p.ty()
            cv = p.value(ct)
            p.expect(',')
            p.expect('label')
            cases.append((cv[1], p.next()[1]))
        return Instr('switch', None, (t, v, d, cases), s)
    if op == 'phi':
        t = p.ty()
        inc = []
        while True:
            p.expect('[')
            v = p.value(t)
            p.expect(',')
            l = p.next()[1]
            p.expect(']')
            inc.append((v, l))
            if not p.accept(','):
                break
        return Instr('phi', res, (t, inc), s)
    if op == 'select':
        ct, c = p.typed_value()
        p.expect(',')
        t, a = p.typed_value()
        p.expect(',')
        t2, b = p.typed_value()
        return Instr('select', res, (t, c, a, b), s)
    if op in BINOPS:
        while p.peek()[1] in FLAGS:
            p.next()
        t = p.ty()
        a = p.value(t)
        p.expect(',')
        b = p.value(t)
        return Instr('bin', res, (op, t, a, b), s)
    if op in CASTS:
        while p.peek()[1] in FLAGS:
            p.next()
        t = p.ty()
        v = p.value(t)
        p.expect('to')
        t2 = p.ty()
        return Instr('cast', res, (op, t, v, t2), s)
    if op == 'ret':
        if p.peek()[1] == 'void':
            return Instr('ret', None, (None, None), s)
        t, v = p.typed_value()
        return Instr('ret', None, (t, v), s)
    if op == 'unreachable':
        return Instr('unreachable', None, (), s)
    if op == 'freeze':
        t, v = p.typed_value()
        return Instr('freeze', res, (t, v), s)
    if op == 'extractvalue':
        t, v = p.typed_value()
        idx = []
        while p.accept(','):
            idx.append(int(p.next()[1]))
        return Instr('extractvalue', res, (t, v, idx), s)
    if op == 'insertvalue':
        t, v = p.typed_value()
        p.expect(',')
        t2, e = p.typed_value()
        idx = []
        while p.accept(','):
            idx.append(int(p.next()[1]))
        return Instr('insertvalue', res, (t, v, t2, e, idx), s)
    raise ValueError('unsupported instruction: %s' % s)


# ----------------------------------------------------------------------------- symbolic values
def is_c(v):
    return isinstance(v, int) and not isinstance(v, bool)


def mask(bits):
    return (1 << bits) - 1


def sx_(v, bits):
    return v - (1 << bits) if v >> (bits - 1) else v


sxs = sx_


def _gn(g):
    """normalise guard: True/False/E"""
    if g is True or g is False:
        return g
    if isinstance(g, int):
        return bool(g & 1)
    return g


def _gv(g):
    return 1 if g is True else 0 if g is False else g


def g_and(a, b):
    if a is False or b is False:
        return False
    if a is True:
        return b
    if b is True:
        return a
    return _gn(sx.and_(a, b, 1))


def g_or(a, b):
    if a is True or b is True:
        return True
    if a is False:
        return b
    if b is False:
        return a
    return _gn(sx.or_(a, b, 1))


def g_not(a):
    if a is True:
        return False
    if a is False:
        return True
    return _gn(sx.not_(a))


def g_simpl(g):
    return _gn(g)


def to_bool(v):
    return _gn(v)


def from_bool(g):
    return _gv(g)


class Ptr:
    """pointer into data objects: alternatives (guard, oid, off); guards mutually exclusive"""
    __slots__ = ('alts',)

    def __init__(self, alts):
        self.alts = alts

    @staticmethod
    def to(oid, off=0):
        return Ptr([(True, oid, off)])

    def add(self, d):
        return Ptr([(g, o, Exec.add64(off, d)) for g, o, off in self.alts])

    def flat(self):
        r = None
        for g, o, off in reversed(self.alts):
            v = Exec.add64(o << 32, off)
            r = v if r is None else ite(g, v, r, 64)
        return r

    def size(self):
        return 64

    def __repr__(self):
        return 'Ptr(%s)' % ', '.join('%s:%s+%s' % (('T' if g is True else '?'), o, off if is_c(off) else 'sym') for g, o, off in self.alts)


def ptr_ite(g, a, b):
    if not isinstance(a, Ptr):
        a = Ptr([(True, 0, a)])
    if not isinstance(b, Ptr):
        b = Ptr([(True, 0, b)])
    by = {}
    order = []
    for gg, o, off in a.alts:
        by.setdefault(o, []).append((g_and(g, gg), off))
        if o not in order:
            order.append(o)
    ng = g_not(g)
    for gg, o, off in b.alts:
        by.setdefault(o, []).append((g_and(ng, gg), off))
        if o not in order:
            order.append(o)
    alts = []
    for o in order:
        lst = [(x, off) for x, off in by[o] if x is not False]
        if not lst:
            continue
        gg = False
        off = None
        for x, of in reversed(lst):
            off = of if off is None else ite(x, of, off, 64)
            gg = g_or(gg, x)
        alts.append((gg, o, off))
    return Ptr(alts)


def ite(g, a, b, bits):
    if g is True:
        return a
    if g is False:
        return b
    if a is b:
        return a
    if isinstance(a, Ptr) or isinstance(b, Ptr):
        return ptr_ite(g, a, b)
    if isinstance(a, list):
        return [ite(g, x, y, None) for x, y in zip(a, b)]
    if is_c(a) and is_c(b) and a == b:
        return a
    if bits is None:
        if is_c(a) and is_c(b):
            raise Unsupported('ite of two concrete values with unknown width')
        bits = a.bits if not is_c(a) else b.bits
    return sx.ite(g, a, b, bits)


def simp(v):
    return v


# ----------------------------------------------------------------------------- memory
class Obj:
    __slots__ = ('size', 'b', 'ro', 'name')

    def __init__(self, size, name='', fill=None, ro=False):
        self.size = size
        self.b = [fill] * size  # per byte: int | z3 BV8 | None(undef) | ('w', nbytes, k, value) cell part
        self.ro = ro
        self.name = name

    def clone(self):
        o = Obj.__new__(Obj)
        o.size, o.b, o.ro, o.name = self.size, list(self.b), self.ro, self.name
        return o


class Mem:
    def __init__(self):
        self.objs = {}  # id -> Obj (copy-on-write via owned set)
        self.owned = set()

    def fork(self):
        m = Mem()
        m.objs = dict(self.objs)
        m.owned = set()
        self.owned = set()
        return m

    def wobj(self, oid):
        if oid not in self.owned:
            self.objs[oid] = self.objs[oid].clone()
            self.owned.add(oid)
        return self.objs[oid]


UNDEF_CTR = itertools.count()


class Lazy:
    """unevaluated ite(g, a, b) produced by a join: materialised only if the cell / register is read, so
    dead temporaries and data overwritten before the next read never create expression nodes"""
    __slots__ = ('g', 'a', 'b', 'bits', 'v', 'cell', 'done')

    def __init__(self, g, a, b, bits, cell=False):
        self.g, self.a, self.b, self.bits, self.cell = g, a, b, bits, cell
        self.v = None
        self.done = False

    def force(self):
        if not self.done:
            a, b = self.a, self.b
            if self.cell:
                a, b = byte_of(a), byte_of(b)
            else:
                if isinstance(a, Lazy):
                    a = a.force()
                if isinstance(b, Lazy):
                    b = b.force()
            self.v = ite(self.g, a, b, self.bits)
            self.done = True
            self.a = self.b = self.g = None
        return self.v


RECURSION_BOUND = int(os.environ.get('LLSYM_RECURSION', '4'))
LAZY_MERGE = not os.environ.get('LLSYM_EAGER_MERGE')
RELATIVE_JOINS = not os.environ.get('LLSYM_FULL_GUARD_JOINS')


def lazy_ite(g, a, b, bits):
    if a is b or (is_c(a) and is_c(b) and a == b):
        return a
    if not LAZY_MERGE:
        return ite(g, a, b, bits)
    return Lazy(g, a, b, bits)


def byte_of(cell):
    """materialise one byte value (int or BV8) from a stored byte entry"""
    if cell is None:
        return 0  # undef read as 0 (Rust never reads uninit in safe code; padding copies only)
    if isinstance(cell, Lazy):
        return cell.force()
    if isinstance(cell, tuple):
        _, nb, k, val = cell
        if isinstance(val, Lazy):
            val = val.force()
        if isinstance(val, Ptr):
            val = val.flat()
        return sx.extract(val, 8 * k + 7, 8 * k)
    return cell


def mem_load(obj, off, nbytes):
    """little-endian load at concrete offset"""
    if off < 0 or off + nbytes > obj.size:
        raise MemError('oob load %s+%d/%d of %s' % (off, nbytes, obj.size, obj.name))
    c0 = obj.b[off]
    if isinstance(c0, tuple) and c0[1] == nbytes and c0[2] == 0:
        ok = True
        for k in range(1, nbytes):
            c = obj.b[off + k]
            if not (isinstance(c, tuple) and c[3] is c0[3] and c[2] == k):
                ok = False
                break
        if ok:
            v = c0[3]
            return v.force() if isinstance(v, Lazy) else v
    parts = [byte_of(obj.b[off + k]) for k in range(nbytes)]
    if all(is_c(x) for x in parts):
        v = 0
        for k, x in enumerate(parts):
            v |= x << (8 * k)
        return v
    r = parts[0]
    w = 8
    for x in parts[1:]:
        r = sx.concat(x, 8, r, w)
        w += 8
    return r


def mem_store(obj, off, nbytes, val):
    if off < 0 or off + nbytes > obj.size:
        raise MemError('oob store %s+%d/%d of %s' % (off, nbytes, obj.size, obj.name))
    if is_c(val):
        for k in range(nbytes):
            obj.b[off + k] = (val >> (8 * k)) & 0xff
    else:
        if isinstance(val, Ptr) and nbytes != 8:
            val = val.flat()
        for k in range(nbytes):
            obj.b[off + k] = ('w', nbytes, k, val)


class MemError(Exception):
    pass


class Unsupported(Exception):
    pass


class DeadPath(Exception):
    pass


_FEAS = {}
LOOP_STATS = {} if os.environ.get('LLSYM_MERGE_STATS') else None
NODE_STATS = {} if os.environ.get('LLSYM_MERGE_STATS') else None
MERGE_STATS = {} if os.environ.get('LLSYM_MERGE_STATS') else None
# Back edges are followed while their guard is not *syntactically* false (loop counters of the model
# containers are concrete or constant-leaf ite trees, so loops end without solver calls); the residual
# guard after `unwind` iterations is the unwinding assertion. Solver-based pruning is optional.
PRUNE_BACKEDGES = bool(os.environ.get('LLSYM_PRUNE'))
FEAS_STATS = {'calls': 0, 'time': 0.0}


def feasible(g):
    if g is True:
        return True
    if g is False:
        return False
    r = _FEAS.get(g.id)
    if r is None:
        t = time.time()
        if os.environ.get('LLSYM_DEBUG'):
            import traceback
            sys.stderr.write('feasible() call from %s\n' % ' < '.join(f.name for f in traceback.extract_stack()[-5:-1]))
        s = z3.SolverFor('QF_BV')
        s.add(sx.guard_z3(g))
        r = s.check() != z3.unsat
        _FEAS[g.id] = r
        FEAS_STATS['calls'] += 1
        FEAS_STATS['time'] += time.time() - t
    return r


def merge_cells(g, sb, mb):
    """cellwise ite(g, sb, mb) over two equally long byte-cell lists"""
    out = list(mb)
    n = len(sb)
    i = 0
    while i < n:
        x, y = sb[i], mb[i]
        if x is y or (is_c(x) and is_c(y) and x == y):
            i += 1
            continue
        if isinstance(x, tuple) and isinstance(y, tuple) and x[3] is y[3] and x[1:3] == y[1:3]:
            i += 1
            continue
        nb = 1
        if isinstance(x, tuple) and x[2] == 0 and isinstance(y, tuple) and y[2] == 0 and x[1] == y[1] and i + x[1] <= n:
            nb = x[1]
            for k in range(nb):
                a, b = sb[i + k], mb[i + k]
                if not (isinstance(a, tuple) and a[3] is x[3] and a[2] == k and isinstance(b, tuple) and b[3] is y[3] and b[2] == k):
                    nb = 1
                    break
        if nb == 1 and isinstance(x, tuple) and x[2] == 0 and i + x[1] <= n:
            # symbolic wide cell vs concrete bytes
            w = x[1]
            if all(isinstance(sb[i + k], tuple) and sb[i + k][3] is x[3] and sb[i + k][2] == k for k in range(w)) and \
               all(is_c(mb[i + k]) or mb[i + k] is None for k in range(w)):
                yv = 0
                for k in range(w):
                    yv |= (mb[i + k] or 0) << (8 * k)
                val = lazy_ite(g, x[3], yv, w * 8)
                for k in range(w):
                    out[i + k] = ('w', w, k, val)
                i += w
                continue
        if nb == 1 and isinstance(y, tuple) and y[2] == 0 and i + y[1] <= n:
            w = y[1]
            if all(isinstance(mb[i + k], tuple) and mb[i + k][3] is y[3] and mb[i + k][2] == k for k in range(w)) and \
               all(is_c(sb[i + k]) or sb[i + k] is None for k in range(w)):
                xv = 0
                for k in range(w):
                    xv |= (sb[i + k] or 0) << (8 * k)
                val = lazy_ite(g, xv, y[3], w * 8)
                for k in range(w):
                    out[i + k] = ('w', w, k, val)
                i += w
                continue
        if nb > 1:
            val = lazy_ite(g, x[3], y[3], nb * 8)
            for k in range(nb):
                out[i + k] = ('w', nb, k, val)
            i += nb
        else:
            if x is None:
                out[i] = y
            elif y is None:
                out[i] = x
            elif LAZY_MERGE:
                out[i] = Lazy(g, x, y, 8, cell=True)
            else:
                out[i] = ite(g, byte_of(x), byte_of(y), 8)
            i += 1
    return out


def enum_values(t, limit=64):
    if is_c(t):
        return [(True, t)]
    lv = sx.leaves(t, limit)
    if lv is None:
        return None
    return [(_gn(g), v) for g, v in lv]


# ----------------------------------------------------------------------------- executor
class State:
    """g: full path guard; path: the conjuncts it was built from, as (condition, cumulative guard) pairs.
    Joins factor out the common prefix of the incoming paths and select by the *local* conditions only, so
    that a diamond does not leave its branch history in every later guard and value."""
    __slots__ = ('g', 'env', 'mem', 'path')

    def __init__(self, g, env, mem, path=()):
        self.g, self.env, self.mem, self.path = g, env, mem, path


def path_extend(path, g, cond):
    """(new guard, new path) after additionally assuming cond"""
    if cond is True:
        return g, path
    g2 = g_and(g, cond)
    if g2 is False:
        return False, path
    return g2, path + ((cond, g2),)


class Result:
    def __init__(self):
        self.rets = []  # (guard, value)
        self.panics = []  # (guard, msg)
        self.bounds = []  # (guard, msg): model capacity / precision bound exceeded
        self.ub = []  # guards of dropped undefined-behaviour alternatives (must be unreachable)
        self.funcs = set()
        self.unwind = []  # guards
        self.stats = {'instrs': 0, 'calls': 0, 'blocks': 0, 'merges': 0}


BOUND_PAT = re.compile(r'cap_exceeded|out_of_model|key_collision')
PANIC_PAT = re.compile(r'panick|panic_|unwrap_failed|expect_failed|handle_alloc_error|slice_(start|end)_index|'
                       r'capacity_overflow|handle_error|_Unwind|abort|begin_panic|assert_failed|'
                       r'slice_index|str_index|option13|result13|cell.*already|rust_panic')


class Exec:
    def __init__(self, mod, unwind=8, verbose=False):
        self.mod = mod
        self.K = unwind
        self.verbose = verbose
        self.next_obj = 16
        self.glob_addr = {}
        self.fn_addr = {}
        self.addr_fn = {}
        self.res = Result()
        self.depth = 0
        self.loopinfo = {}
        self.frames = []
        self.active = {}
        self.gmem = Mem()
        self._init_globals()

    # ---- objects
    def new_obj(self, mem, size, name, fill=None, ro=False):
        oid = self.next_obj
        self.next_obj += 1
        mem.objs[oid] = Obj(size, name, fill, ro)
        mem.owned.add(oid)
        return oid

    def _init_globals(self):
        mem = self.gmem
        for name, (t, init) in self.mod.globals.items():
            oid = self.new_obj(mem, ty_size(t), name, fill=0, ro=True)
            self.glob_addr[name] = oid << 32
        fid = 1
        for name in list(self.mod.funcs) + sorted(self.mod.decls):
            self.fn_addr[name] = (fid << 32)
            self.addr_fn[fid << 32] = name
            fid += 1
            if fid >= 16:
                # function ids share the object id space below 16 only for a handful; extend
                pass
        # function "addresses" live in a high range to avoid clashing with objects
        self.fn_addr = {}
        self.addr_fn = {}
        base = 0x7f00 << 32
        for k, name in enumerate(list(self.mod.funcs) + sorted(self.mod.decls)):
            a = base + (k << 4)
            self.fn_addr[name] = a
            self.addr_fn[a] = name
        for name, (t, init) in self.mod.globals.items():
            oid = self.glob_addr[name] >> 32
            self._write_const(mem.objs[oid], 0, t, init)

    def _const_val(self, t, v):
        k = v[0]
        if k == 'int':
            return v[1] & mask(rty(t).bits)
        if k == 'glob':
            return self.addr_of_global(v[1])
        if k in ('undef',):
            return 0
        if k == 'cgep':
            base = self._const_val(PTR, v[2])
            off = self.gep_offset(v[1], [(it, self._const_val(it, iv)) for it, iv in v[3]])
            return self.add64(base, off)
        raise Unsupported('const %r' % (v,))

    def addr_of_global(self, name):
        name = self.mod.aliases.get(name, name)
        if name in self.glob_addr:
            return Ptr.to(self.glob_addr[name] >> 32, 0)
        if name in self.fn_addr:
            return self.fn_addr[name]
        raise Unsupported('unknown global %s' % name)

    def _write_const(self, obj, off, t, v):
        t = rty(t)
        k = v[0]
        if k == 'bytes':
            for i, b in enumerate(v[1]):
                obj.b[off + i] = b
        elif k in ('zero', 'undef'):
            for i in range(ty_size(t)):
                obj.b[off + i] = 0
        elif k == 'agg':
            if isinstance(t, StructTy):
                offs = struct_offsets(t)
                for (et, ev), o in zip(v[1], offs):
                    self._write_const(obj, off + o, et, ev)
            else:
                es = ty_size(t.el)
                for i, (et, ev) in enumerate(v[1]):
                    self._write_const(obj, off + i * es, et, ev)
        else:
            val = self._const_val(t, v)
            mem_store(obj, off, ty_store_size(t), val)

    # ---- operands
    def val(self, st, t, v):
        k = v[0]
        if k == 'reg':
            try:
                r = st.env[v[1]]
            except KeyError:
                raise Unsupported('undefined register %s' % v[1])
            if isinstance(r, Lazy):
                r = r.force()
                st.env[v[1]] = r
            return r
        if k == 'int':
            tt = rty(t)
            return v[1] & mask(tt.bits)
        if k == 'glob':
            return self.addr_of_global(v[1])
        if k == 'undef' or k == 'zero':
            tt = rty(t)
            if isinstance(tt, (StructTy, ArrTy)):
                return self.zero_agg(tt)
            return 0
        if k == 'cgep':
            return self._const_val(t, v)
        if k == 'agg':
            return [self.val(st, et, ev) for et, ev in v[1]]
        raise Unsupported('operand %r' % (v,))

    def zero_agg(self, t):
        t = rty(t)
        if isinstance(t, StructTy):
            return [self.zero_agg(e) for e in t.els]
        if isinstance(t, ArrTy):
            return [self.zero_agg(t.el) for _ in range(t.n)]
        return 0

    def gep_offset(self, bt, idx):
        """idx: list of (type, value); returns int or z3 64-bit offset"""
        off = 0
        t = bt
        first = True
        for it, iv in idx:
            bits = rty(it).bits
            if first:
                stride = ty_size(t)
                first = False
                cur = None
            else:
                tt = rty(t)
                if isinstance(tt, StructTy):
                    assert is_c(iv)
                    off = self.add64(off, struct_offsets(tt)[iv])
                    t = tt.els[iv]
                    continue
                elif isinstance(tt, ArrTy):
                    stride = ty_size(tt.el)
                    t = tt.el
                else:
                    raise Unsupported('gep into %r' % tt)
            if is_c(iv):
                off = self.add64(off, (sxs(iv, bits) * stride) & mask(64))
            else:
                x = sx.sext(iv, bits, 64) if bits < 64 else iv
                off = self.add64(off, sx.bin_('mul', x, stride, 64) if stride != 1 else x)
        return off

    @staticmethod
    def add64(a, b):
        if isinstance(a, Ptr):
            return a.add(b)
        if isinstance(b, Ptr):
            return b.add(a)
        if is_c(a) and is_c(b):
            return (a + b) & mask(64)
        return sx.bin_('add', a, b, 64)

    # ---- pointer resolution: list of (guard, oid, offset(int or z3 32-bit-ish expr))
    def resolve(self, st, p, nbytes, align):
        """targets of a dereference: [(guard, oid, concrete offset)]. Alternatives that would be undefined
        behaviour (null / out of bounds) are dropped from the path, and their guards are recorded in
        res.ub: the final query 'invalid-deref' must show them unreachable, else the run is inconclusive."""
        if not isinstance(p, Ptr):
            if is_c(p):
                self.res.ub.append(st.g)
                raise DeadPath()
            raise MemError('deref of non-object pointer (symbolic integer)')
        out = []
        dropped = False
        for g, oid, off in p.alts:
            if oid == 0:
                dropped = g_or(dropped, g)  # null/int alternative
                continue
            obj = st.mem.objs.get(oid)
            if obj is None:
                raise MemError('dangling object %d' % oid)
            if is_c(off):
                if off + nbytes > obj.size:
                    dropped = g_or(dropped, g)
                else:
                    out.append((g, oid, off))
                continue
            ev = enum_values(off)
            if ev is None:
                off2 = sx.expand_small(off, 64)
                if off2 is not None:
                    self.res.stats['expand_small'] = self.res.stats.get('expand_small', 0) + 1
                    ev = enum_values(off2)
            if ev is not None:
                byoff = {}
                for gg, o in ev:
                    if o + nbytes > obj.size:
                        dropped = g_or(dropped, g_and(g, gg))
                        continue
                    byoff[o] = g_or(byoff.get(o, False), gg)
                for o, gg in byoff.items():
                    gg = g_and(g, gg)
                    if gg is not False and gg is not True and st.g is not True and sx.contradicts(st.g, gg):
                        continue
                    if gg is not False:
                        out.append((gg, oid, o))
                continue
            vs = sx.valset(off)
            if vs is not None:
                self.res.stats['valset'] = self.res.stats.get('valset', 0) + 1
                cands = sorted(vs)
            else:
                self.res.stats['enum_fallback'] = self.res.stats.get('enum_fallback', 0) + 1
                if os.environ.get('LLSYM_DEBUG_ENUM'):
                    def show(e, d=0):
                        if is_c(e): return str(e)
                        if d > 3: return e.op
                        return '%s(%s)' % (e.op, ','.join(show(a_, d + 1) for a_ in e.args))
                    sys.stderr.write('ENUM_FALLBACK obj=%s size=%d nbytes=%d off=%s\n   at %s\n' % (obj.name, obj.size, nbytes, show(off)[:300], getattr(self, 'cur_line', '?')))
                cands = list(range(0, obj.size - nbytes + 1, max(1, align)))
            anyg = False
            for o in cands:
                gg = g_and(g, _gn(sx.cmp_('eq', off, o, 64)))
                if gg is False:
                    continue
                anyg = g_or(anyg, gg)
                if o + nbytes > obj.size:
                    continue  # stays in `dropped` below
                out.append((gg, oid, o))
            inb = False
            for gg, oo, o in out:
                if oo == oid:
                    inb = g_or(inb, gg)
            dropped = g_or(dropped, g_and(g, g_not(inb)))
        if dropped is not False:
            self.res.ub.append(g_and(st.g, dropped))
        if not out:
            raise DeadPath()
        if len(out) == 1:
            return [(True, out[0][1], out[0][2])]
        return out

    def load(self, st, p, t, align):
        t = rty(t)
        if isinstance(t, (StructTy, ArrTy)):
            return self.load_agg(st, p, t, align)
        nb = ty_store_size(t)
        bits = t.bits
        res = None
        targets = self.resolve(st, p, nb, align)
        for g, oid, off in reversed(targets):
            v = mem_load(st.mem.objs[oid], off, nb)
            if bits < nb * 8:
                v = sx.extract(v.flat() if isinstance(v, Ptr) else v, bits - 1, 0)
            res = v if res is None else ite(g, v, res, bits)
        return simp(res) if len(targets) > 1 else res

    def load_agg(self, st, p, t, align):
        if isinstance(t, StructTy):
            offs = struct_offsets(t)
            return [self.load(st, self.add64(p, o), e, 1) for e, o in zip(t.els, offs)]
        es = ty_size(t.el)
        return [self.load(st, self.add64(p, i * es), t.el, 1) for i in range(t.n)]

    def store(self, st, p, t, v, align):
        t = rty(t)
        if isinstance(t, StructTy):
            for e, o, x in zip(t.els, struct_offsets(t), v):
                self.store(st, self.add64(p, o), e, x, 1)
            return
        if isinstance(t, ArrTy):
            es = ty_size(t.el)
            for i, x in enumerate(v):
                self.store(st, self.add64(p, i * es), t.el, x, 1)
            return
        nb = ty_store_size(t)
        bits = t.bits
        if bits < nb * 8:
            v = sx.zext(v, bits, nb * 8)
        targets = self.resolve(st, p, nb, align)
        if len(targets) == 1:
            g, oid, off = targets[0]
            mem_store(st.mem.wobj(oid), off, nb, v)
            return
        for g, oid, off in targets:
            obj = st.mem.wobj(oid)
            old = mem_load(obj, off, nb)
            mem_store(obj, off, nb, simp(ite(g, v, old, nb * 8)))

    def memcpy(self, st, dst, src, n):
        if not is_c(n):
            n = simp(n)
            if not is_c(n):
                raise Unsupported('memcpy with symbolic length')
        if n == 0:
            return
        # read all bytes first (memmove semantics)
        srcs = self.resolve(st, src, n, 1)
        dsts = self.resolve(st, dst, n, 1)
        if len(srcs) == 1 and len(dsts) == 1:
            so, do = st.mem.objs[srcs[0][1]], st.mem.wobj(dsts[0][1])
            a, b = srcs[0][2], dsts[0][2]
            if a + n > so.size or b + n > do.size:
                raise MemError('memcpy oob')
            chunk = so.b[a:a + n]
            do.b[b:b + n] = chunk
            return
        # general: for each (src alt, dst alt) pair do a guarded cell copy
        self.res.stats['memcpy_multi'] = self.res.stats.get('memcpy_multi', 0) + 1
        snap = {}
        for gs, so_id, a in srcs:
            so = st.mem.objs[so_id]
            if a + n > so.size:
                raise MemError('memcpy oob')
            snap[(so_id, a)] = so.b[a:a + n]
        for gd, do_id, b in dsts:
            do = st.mem.wobj(do_id)
            if b + n > do.size:
                raise MemError('memcpy oob')
            old = do.b[b:b + n]
            # value to write = ite over src alts
            newcells = None
            for gs, so_id, a in reversed(srcs):
                chunk = snap[(so_id, a)]
                newcells = chunk if newcells is None else merge_cells(gs, chunk, newcells)
            if gd is not True:
                newcells = merge_cells(gd, newcells, old)
            do.b[b:b + n] = newcells

    # ---- merging
    def merge_states(self, states, rbits=None):
        states = [s for s in states if s.g is not False]
        if not states:
            return None
        if len(states) == 1:
            return states[0]
        self.res.stats['merges'] += 1
        # common prefix of the paths (identity of the cumulative guards)
        p0 = states[0].path
        lp = len(p0)
        for s in states[1:]:
            q = s.path
            n = min(lp, len(q))
            i = 0
            while i < n and q[i][1] is p0[i][1]:
                i += 1
            lp = i
        gp = p0[lp - 1][1] if lp > 0 else True
        if RELATIVE_JOINS and all((len(s.path) > lp or s.g is gp) for s in states):
            locs = []
            for s in states:
                l = True
                for c, _ in s.path[lp:]:
                    l = g_and(l, c)
                locs.append(l)
        else:
            # a state whose guard is not described by its path: fall back to full guards
            lp = 0
            gp = True
            locs = [s.g for s in states]
        anyl = False
        for l in locs:
            anyl = g_or(anyl, l)
        anyl = g_simpl(anyl)
        g, path = path_extend(states[0].path[:lp], gp, anyl)
        base = states[0]
        env = dict(base.env)
        mem = base.mem.fork()
        for s, sel in zip(states[1:], locs[1:]):
            # env
            for k, v in s.env.items():
                if k in env:
                    o = env[k]
                    if o is v or (is_c(o) and is_c(v) and o == v):
                        continue
                    env[k] = lazy_ite(sel, v, o, (rbits or {}).get(k))
                else:
                    env[k] = v
            # memory
            for oid, ob in s.mem.objs.items():
                mine = mem.objs.get(oid)
                if mine is None:
                    mem.objs[oid] = ob
                    continue
                if mine is ob:
                    continue
                if ob.b is not mine.b:
                    w = mem.wobj(oid)
                    if MERGE_STATS is not None:
                        n0 = sx._CNT[0]
                    w.b = merge_cells(sel, ob.b, w.b)
                    if MERGE_STATS is not None:
                        MERGE_STATS[ob.name] = MERGE_STATS.get(ob.name, 0) + sx._CNT[0] - n0
        return State(g, env, mem, path)

    # ---- CFG helpers
    def loops_of(self, f):
        if f.name in self.loopinfo:
            return self.loopinfo[f.name]
        succ = {}
        for l in f.order:
            term = f.blocks[l][-1]
            if term.op == 'br':
                succ[l] = [term.a[0]]
            elif term.op == 'condbr':
                succ[l] = [term.a[1], term.a[2]]
            elif term.op == 'switch':
                succ[l] = [term.a[2]] + [c[1] for c in term.a[3]]
            else:
                succ[l] = []
        entry = f.order[0]
        # RPO
        seen, post = set(), []
        stack = [(entry, iter(succ[entry]))]
        seen.add(entry)
        while stack:
            n, it = stack[-1]
            adv = False
            for s in it:
                if s not in seen:
                    seen.add(s)
                    stack.append((s, iter(succ[s])))
                    adv = True
                    break
            if not adv:
                post.append(n)
                stack.pop()
        rpo = post[::-1]
        idx = {n: i for i, n in enumerate(rpo)}
        preds = {n: [] for n in rpo}
        for n in rpo:
            for s in succ[n]:
                if s in preds:
                    preds[s].append(n)
        # dominators (iterative)
        idom = {entry: entry}
        changed = True
        while changed:
            changed = False
            for n in rpo[1:]:
                ps = [p for p in preds[n] if p in idom]
                new = ps[0]
                for p in ps[1:]:
                    a, b = p, new
                    while a != b:
                        while idx[a] > idx[b]:
                            a = idom[a]
                        while idx[b] > idx[a]:
                            b = idom[b]
                    new = a
                if idom.get(n) != new:
                    idom[n] = new
                    changed = True

        def dominates(a, b):
            while True:
                if a == b:
                    return True
                if b == entry:
                    return False
                b = idom[b]

        loops = {}  # header -> set(body)
        for n in rpo:
            for s in succ[n]:
                if s in idx and dominates(s, n):
                    body = loops.setdefault(s, {s})
                    st = [n]
                    while st:
                        x = st.pop()
                        if x not in body:
                            body.add(x)
                            st.extend(preds[x])
        info = (succ, rpo, idx, preds, loops)
        self.loopinfo[f.name] = info
        return info

    # ---- function execution
    def run_function(self, f, args, st_in):
        """returns (list of (guard, retval), merged out memory state) ; st_in: State whose env is caller's (ignored)"""
        self.res.stats['calls'] += 1
        self.depth += 1
        if self.depth > 60:
            raise Unsupported('call depth exceeded (recursion?)')
        parse_body(f)
        self.res.funcs.add(f.name)
        # bounded recursion: a function may be active at most RECURSION_BOUND times; a deeper call ends the
        # path and its guard becomes an unwinding assertion (must be unreachable)
        n_act = self.active.get(f.name, 0)
        if n_act >= RECURSION_BOUND:
            self.res.unwind.append(st_in.g)
            self.res.stats['recursion_cut'] = self.res.stats.get('recursion_cut', 0) + 1
            self.depth -= 1
            return []
        self.active[f.name] = n_act + 1
        try:
            return self._run_function_body(f, args, st_in)
        finally:
            self.active[f.name] = n_act
            self.depth -= 1

    def _run_function_body(self, f, args, st_in):
        env = {}
        for (t, name), a in zip(f.params, args):
            env[name] = a
        succ, rpo, idx, preds, loops = self.loops_of(f)
        entry = f.order[0]
        st0 = State(st_in.g, env, st_in.mem, st_in.path)
        rets = []
        self.frames.append([])
        self.exec_region(f, set(rpo), entry, {entry: [st0]}, rets, None, loops, idx)
        dead = self.frames.pop()
        if dead and self.depth > 1 and not os.environ.get('LLSYM_NO_FRAMES'):
            # the callee's stack slots die with the call: drop them so that later joins do not merge them
            out = []
            for g, v, mem, pth in rets:
                m2 = mem.fork()
                for oid in dead:
                    m2.objs.pop(oid, None)
                out.append((g, v, m2, pth))
            rets = out
        return rets

    def exec_region(self, f, region, entry, pending, rets, exits, loops, idx):
        """Execute blocks of `region` (a set) in RPO order starting with pending edge-states.
        pending: label -> [State] incoming. Edge states leaving the region go to `exits` dict.
        Inner loops (headers in region other than entry-as-loop-header) are handled recursively."""
        order = sorted(region, key=lambda l: idx[l])
        inner_done = set()
        for l in order:
            if l in inner_done:
                continue
            ins = pending.pop(l, [])
            if not ins:
                continue
            if l in loops and not (l == entry and exits is not None and loops[l] == region):
                body = loops[l] & region
                self.exec_loop(f, l, body, ins, pending, rets, loops, idx, region, exits)
                inner_done |= body
                continue
            st = self.merge_states(ins, f.rbits)
            if st is None:
                continue
            outs = self.exec_block(f, l, st, rets)
            for tgt, s2 in outs:
                if s2.g is False:
                    continue
                if tgt in region and not (tgt == entry and exits is not None):
                    if idx[tgt] <= idx[l] and tgt not in loops:
                        raise Unsupported('irreducible/backward edge %s->%s' % (l, tgt))
                    pending.setdefault(tgt, []).append(s2)
                else:
                    if exits is None:
                        raise Unsupported('edge leaves function region: %s->%s' % (l, tgt))
                    exits.setdefault(tgt, []).append(s2)

    def exec_loop(self, f, header, body, ins, pending_outer, rets, loops, idx, outer_region, outer_exits):
        """unroll a natural loop. Iterations whose continuation does not depend on symbolic data (the back
        edge carries exactly the guard the iteration started with) are free; at most K iterations may be
        decided by a symbolic condition, the residual back-edge guard is the unwinding assertion."""
        cur = ins
        sym_iters = 0
        total = 0
        while True:
            if LOOP_STATS is not None:
                kk = (demangle(f.name)[-50:], header)
                LOOP_STATS[kk] = LOOP_STATS.get(kk, 0) + 1
            exits = {}
            pend = {header: cur}
            g_in = cur[0].g if len(cur) == 1 else None
            self.exec_region(f, body, header, pend, rets, exits, loops, idx)
            back = exits.pop(header, [])
            for tgt, sts in exits.items():
                if tgt in outer_region:
                    pending_outer.setdefault(tgt, []).extend(sts)
                else:
                    if outer_exits is None:
                        raise Unsupported('loop exit leaves function')
                    outer_exits.setdefault(tgt, []).extend(sts)
            back = [s for s in back if s.g is not False]
            if back and sym_iters >= 1 and PRUNE_BACKEDGES:
                back = [s for s in back if feasible(s.g)]
            if not back:
                return
            total += 1
            concrete = len(back) == 1 and g_in is not None and back[0].g is g_in and not os.environ.get('LLSYM_OLD_LOOP')
            if not concrete:
                sym_iters += 1
            if sym_iters > self.K or total > 20000:
                break
            cur = back
        for s in back:
            self.res.unwind.append(s.g)

    def edge_state(self, f, src, tgt, st, g):
        """apply phi assignments of tgt for edge src->tgt"""
        g2, path2 = path_extend(st.path, st.g, g)
        if g2 is not False and g2 is not True and st.g is not True and g is not True and sx.contradicts(st.g, g):
            g2 = False
        if g2 is False:
            return State(False, st.env, st.mem)
        blk = f.blocks[tgt]
        env = st.env
        new = None
        for ins in blk:
            if ins.op != 'phi':
                break
            t, inc = ins.a
            for v, l in inc:
                if l == src:
                    if new is None:
                        new = {}
                    new[ins.res] = self.val(st, t, v)
                    break
            else:
                raise Unsupported('phi without incoming for %s in %s' % (src, tgt))
        if new:
            env = dict(env)
            env.update(new)
        return State(g2, env, st.mem, path2)

    def exec_block(self, f, label, st, rets):
        self.res.stats['blocks'] += 1
        env = dict(st.env)
        mem = st.mem.fork()
        st = State(st.g, env, mem, st.path)
        blk = f.blocks[label]
        for ins in blk:
            op = ins.op
            self.res.stats['instrs'] += 1
            if op == 'phi':
                continue
            try:
                self.cur_line = ins.line[:200] + ' @@ ' + demangle(f.name)[-80:]
                if NODE_STATS is not None:
                    n0_ = sx._CNT[0]
                r = self.step(f, st, ins)
                if NODE_STATS is not None and op != 'call':
                    kk_ = (demangle(f.name)[-40:], op if op != 'call' else 'call', ins.line[:70])
                    NODE_STATS[kk_] = NODE_STATS.get(kk_, 0) + sx._CNT[0] - n0_
            except DeadPath:
                self.res.stats['deadpaths'] = self.res.stats.get('deadpaths', 0) + 1
                return []
            except (MemError, Unsupported) as e:
                raise type(e)('%s\n  in %s block %s: %s' % (e, f.name[:60], label, ins.line[:160]))
            if r is None:
                continue
            kind = r[0]
            if kind == 'br':
                return [(r[1], self.edge_state(f, label, r[1], st, True))]
            if kind == 'condbr':
                c = r[1]
                outs = []
                if r[2] == r[3]:
                    return [(r[2], self.edge_state(f, label, r[2], st, True))]
                outs.append((r[2], self.edge_state(f, label, r[2], st, c)))
                outs.append((r[3], self.edge_state(f, label, r[3], st, g_not(c))))
                return outs
            if kind == 'switch':
                outs = []
                for g, tgt in r[1]:
                    outs.append((tgt, self.edge_state(f, label, tgt, st, g)))
                return outs
            if kind == 'ret':
                rets.append((st.g, r[1], st.mem, st.path))
                return []
            if kind == 'stop':
                return []
        raise Unsupported('block without terminator')

    def step(self, f, st, ins):
        op, a = ins.op, ins.a
        env = st.env
        if op == 'load':
            t, pv, align = a
            env[ins.res] = self.load(st, self.val(st, PTR, pv), t, align)
            return
        if op == 'store':
            t, v, pv, align = a
            self.store(st, self.val(st, PTR, pv), t, self.val(st, t, v), align)
            return
        if op == 'gep':
            bt, pv, idx = a
            base = self.val(st, PTR, pv)
            off = self.gep_offset(bt, [(it, self.val(st, it, iv)) for it, iv in idx])
            env[ins.res] = self.add64(base, off) if isinstance(base, Ptr) else simp(self.add64(base, off))
            return
        if op == 'icmp':
            pred, t, x, y = a
            tt = rty(t)
            bits = tt.bits
            x, y = self.val(st, t, x), self.val(st, t, y)
            env[ins.res] = self.icmp(pred, x, y, bits)
            return
        if op == 'bin':
            o, t, x, y = a
            bits = rty(t).bits
            env[ins.res] = self.binop(o, self.val(st, t, x), self.val(st, t, y), bits)
            return
        if op == 'cast':
            o, t, v, t2 = a
            env[ins.res] = self.cast(o, self.val(st, t, v), rty(t).bits, rty(t2).bits)
            return
        if op == 'select':
            t, c, x, y = a
            c = to_bool(self.val(st, IntTy(1), c))
            tt = rty(t)
            bits = getattr(tt, 'bits', None)
            env[ins.res] = simp(ite(c, self.val(st, t, x), self.val(st, t, y), bits))
            return
        if op == 'alloca':
            t, cnt, align = a
            n = 1 if cnt is None else self.val(st, IntTy(64), cnt)
            if not is_c(n):
                raise Unsupported('symbolic alloca count')
            key = ('alloca', f.name, ins.res, self.depth)
            oid = self.new_obj(st.mem, ty_size(t) * n, '%s:%s' % (f.name[-30:], ins.res))
            if self.frames:
                self.frames[-1].append(oid)
            env[ins.res] = Ptr.to(oid)
            return
        if op == 'br':
            return ('br', a[0])
        if op == 'condbr':
            c = to_bool(self.val(st, IntTy(1), a[0]))
            if c is True:
                return ('br', a[1])
            if c is False:
                return ('br', a[2])
            return ('condbr', c, a[1], a[2])
        if op == 'switch':
            t, v, d, cases = a
            bits = rty(t).bits
            x = self.val(st, t, v)
            outs = []
            notany = True
            if is_c(x):
                for cv, tgt in cases:
                    if (cv & mask(bits)) == x:
                        return ('br', tgt)
                return ('br', d)
            bytgt = {}
            for cv, tgt in cases:
                g = _gn(sx.cmp_('eq', x, cv & mask(bits), bits))
                bytgt[tgt] = g_or(bytgt.get(tgt, False), g)
                notany = g_and(notany, g_not(g))
            bytgt[d] = g_or(bytgt.get(d, False), notany)
            return ('switch', [(g_simpl(g), tgt) for tgt, g in bytgt.items()])
        if op == 'ret':
            t, v = a
            return ('ret', None if t is None else self.val(st, t, v))
        if op == 'unreachable':
            return ('stop',)
        if op == 'freeze':
            env[ins.res] = self.val(st, a[0], a[1])
            return
        if op == 'extractvalue':
            t, v, idx = a
            x = self.val(st, t, v)
            for i in idx:
                x = x[i]
            env[ins.res] = x
            return
        if op == 'insertvalue':
            t, v, t2, e, idx = a
            x = self.val(st, t, v)
            ev = self.val(st, t2, e)

            def ins_at(agg, path):
                agg = list(agg)
                if len(path) == 1:
                    agg[path[0]] = ev
                else:
                    agg[path[0]] = ins_at(agg[path[0]], path[1:])
                return agg
            env[ins.res] = ins_at(x, idx)
            return
        if op == 'call':
            return self.call(f, st, ins)
        raise Unsupported('op %s' % op)

    def icmp(self, pred, x, y, bits):
        if isinstance(x, Ptr) or isinstance(y, Ptr):
            if pred in ('eq', 'ne'):
                if not isinstance(x, Ptr):
                    x = Ptr([(True, 0, x)])
                if not isinstance(y, Ptr):
                    y = Ptr([(True, 0, y)])
                r = False
                for g1, o1, f1 in x.alts:
                    for g2, o2, f2 in y.alts:
                        if o1 != o2:
                            continue
                        e = _gn(sx.cmp_('eq', f1, f2, 64))
                        r = g_or(r, g_and(g_and(g1, g2), e))
                return from_bool(r if pred == 'eq' else g_not(r))
            x = x.flat() if isinstance(x, Ptr) else x
            y = y.flat() if isinstance(y, Ptr) else y
        return sx.cmp_(pred, x, y, bits)

    def binop(self, o, x, y, bits):
        if isinstance(x, Ptr):
            x = x.flat()
        if isinstance(y, Ptr):
            y = y.flat()
        return sx.bin_(o, x, y, bits)

    def cast(self, o, v, b1, b2):
        if o == 'ptrtoint' and isinstance(v, Ptr):
            v = v.flat()
        if o == 'inttoptr' and not is_c(v):
            raise Unsupported('inttoptr of symbolic integer')
        if o in ('ptrtoint', 'inttoptr', 'bitcast'):
            if b1 == b2:
                return v
            o = 'zext' if b2 > b1 else 'trunc'
        if o == 'zext':
            return sx.zext(v, b1, b2)
        if o == 'sext':
            return sx.sext(v, b1, b2)
        if o == 'trunc':
            return sx.extract(v.flat() if isinstance(v, Ptr) else v, b2 - 1, 0)
        raise Unsupported(o)

    # ---- calls
    def call(self, f, st, ins):
        rt, callee, args = ins.a
        cv = self.val(st, PTR, callee)
        if isinstance(cv, Ptr):
            cv = cv.flat()
        if not is_c(cv):
            # indirect call through a small set of function addresses (e.g. Box<dyn Trait> reassigned on a
            # symbolic branch): run every candidate under its guard and join the results
            lv = enum_values(cv)
            if lv is None:
                raise Unsupported('indirect call through symbolic pointer')
            argv = [None if t is None else self.val(st, t, v) for t, v in args]
            states = []
            g0 = st.g
            for g, addr in lv:
                name = self.addr_fn.get(addr)
                gg = g_and(g0, g)
                if gg is False or (gg is not True and g0 is not True and g is not True and sx.contradicts(g0, g)):
                    continue
                if name is None:
                    self.res.ub.append(gg)
                    continue
                name = self.mod.aliases.get(name, name)
                if name not in self.mod.funcs:
                    raise Unsupported('indirect call to external %s' % name)
                gg2, pth2 = path_extend(st.path, g0, g)
                sub = State(gg2, None, st.mem.fork(), pth2)
                for rg, rv, rmem, rpth in self.run_function(self.mod.funcs[name], argv, sub):
                    states.append(State(rg, {'__ret': rv} if rv is not None else {}, rmem, rpth))
            if not states:
                st.g = False
                return ('stop',)
            m = self.merge_states(states, {'__ret': getattr(rty(rt), 'bits', None) if not isinstance(rt, VoidTy) else None})
            st.g = m.g
            st.path = m.path
            st.mem.objs = m.mem.objs
            st.mem.owned = set()
            if ins.res is not None:
                st.env[ins.res] = m.env['__ret']
            return
        name = self.addr_fn.get(cv)
        if name is None:
            raise Unsupported('call to non-function address 0x%x' % cv)
        name = self.mod.aliases.get(name, name)
        argv = [None if t is None else self.val(st, t, v) for t, v in args]
        env = st.env
        if name.startswith('@llvm.'):
            return self.intrinsic(st, ins, name, args, argv)
        if name in self.mod.funcs:
            callee_f = self.mod.funcs[name]
            rets = []
            sub = State(st.g, None, st.mem, st.path)
            rets = self.run_function(callee_f, argv, sub)
            if not rets:
                # callee never returns on any path (panic)
                st.g = False
                return ('stop',)
            # merge return states
            states = []
            for g, v, mem, pth in rets:
                e = {'__ret': v} if v is not None else {}
                states.append(State(g, e, mem, pth))
            m = self.merge_states(states, {'__ret': getattr(rty(rt), 'bits', None) if not isinstance(rt, VoidTy) else None})
            st.g = m.g
            st.path = m.path
            st.mem.objs = m.mem.objs
            st.mem.owned = set()
            if ins.res is not None:
                env[ins.res] = m.env['__ret']
            return
        # external
        base = name
        if 'rust_alloc' in base and 'dealloc' not in base and 'realloc' not in base and 'shim' not in base:
            size = argv[0]
            if not is_c(size):
                raise Unsupported('symbolic allocation size')
            zero = 'zeroed' in base
            oid = self.new_obj(st.mem, size, 'heap', fill=0 if zero else None)
            env[ins.res] = Ptr.to(oid)
            return
        if 'rust_dealloc' in base or 'no_alloc_shim' in base:
            return
        if base in ('@bcmp', '@memcmp'):
            n = argv[2]
            lv = enum_values(n)
            if lv is None:
                raise Unsupported('%s with a length that is not a small set of constants' % base)
            maxn = max(v for _, v in lv)
            if maxn > 4096:
                raise Unsupported('%s length too large' % base)
            i8 = IntTy(8)
            pa = [self.load(st, self.add64(argv[0], k), i8, 1) for k in range(maxn)]
            pb = [self.load(st, self.add64(argv[1], k), i8, 1) for k in range(maxn)]
            res = None
            for g, v in lv:
                r = 0
                for k in reversed(range(v)):
                    eq = _gn(sx.cmp_('eq', pa[k], pb[k], 8))
                    if base == '@bcmp':
                        r = ite(eq, r, 1, 32)
                    else:
                        lt = _gn(sx.cmp_('ult', pa[k], pb[k], 8))
                        r = ite(eq, r, ite(lt, mask(32), 1, 32), 32)
                res = r if res is None else ite(g, r, res, 32)
            env[ins.res] = res
            return
        if BOUND_PAT.search(base):
            self.res.bounds.append((st.g, base))
            st.g = False
            return ('stop',)
        if PANIC_PAT.search(base):
            self.res.panics.append((st.g, base))
            st.g = False
            return ('stop',)
        raise Unsupported('external call %s' % name)

    def intrinsic(self, st, ins, name, args, argv):
        env = st.env
        n = name
        if n.startswith('@llvm.lifetime') and not os.environ.get('LLSYM_NO_LIFETIME'):
            # the slot's content is dead before lifetime.start and after lifetime.end: make it undef so that
            # joins have nothing to merge for it
            pv = argv[-1]
            if isinstance(pv, Ptr) and len(pv.alts) == 1 and pv.alts[0][0] is True and is_c(pv.alts[0][2]) and pv.alts[0][2] == 0:
                oid = pv.alts[0][1]
                if oid in st.mem.objs and not st.mem.objs[oid].ro:
                    o = st.mem.wobj(oid)
                    o.b = [None] * o.size
            return
        if n.startswith(('@llvm.lifetime', '@llvm.experimental.noalias', '@llvm.assume', '@llvm.dbg',
                         '@llvm.invariant', '@llvm.prefetch', '@llvm.donothing')):
            return
        if n.startswith(('@llvm.memcpy', '@llvm.memmove')):
            self.memcpy(st, argv[0], argv[1], argv[2])
            return
        if n.startswith('@llvm.memset'):
            dst, val, ln = argv[0], argv[1], argv[2]
            if not is_c(ln):
                raise Unsupported('memset symbolic len')
            for k in range(ln):
                self.store(st, self.add64(dst, k), IntTy(8), val, 1)
            return
        if n.startswith('@llvm.trap') or n.startswith('@llvm.ubsantrap'):
            self.res.panics.append((st.g, 'trap'))
            st.g = False
            return ('stop',)
        m = re.match(r'@llvm\.(umax|umin|smax|smin)\.i(\d+)', n)
        if m:
            o, bits = m.group(1), int(m.group(2))
            x, y = argv[0], argv[1]
            pred = {'umax': 'ugt', 'umin': 'ult', 'smax': 'sgt', 'smin': 'slt'}[o]
            c = to_bool(self.icmp(pred, x, y, bits))
            env[ins.res] = simp(ite(c, x, y, bits))
            return
        m = re.match(r'@llvm\.(uadd|usub|umul)\.with\.overflow\.i(\d+)', n)
        if m:
            o, bits = m.group(1), int(m.group(2))
            x, y = argv[0], argv[1]
            if o == 'uadd':
                r = sx.bin_('add', x, y, bits)
                ov = sx.cmp_('ult', r, x, bits)
            elif o == 'usub':
                r = sx.bin_('sub', x, y, bits)
                ov = sx.cmp_('ult', x, y, bits)
            else:
                w = sx.bin_('mul', sx.zext(x, bits, 2 * bits), sx.zext(y, bits, 2 * bits), 2 * bits)
                r = sx.extract(w, bits - 1, 0)
                ov = sx.cmp_('ne', sx.extract(w, 2 * bits - 1, bits), 0, bits)
            env[ins.res] = [r, ov]
            return
        m = re.match(r'@llvm\.(sadd|ssub|smul)\.with\.overflow\.i(\d+)', n)
        if m:
            o, bits = m.group(1), int(m.group(2))
            x, y = argv[0], argv[1]
            w = 2 * bits
            xs, ys = sx.sext(x, bits, w), sx.sext(y, bits, w)
            full = sx.bin_({'sadd': 'add', 'ssub': 'sub', 'smul': 'mul'}[o], xs, ys, w)
            r = sx.extract(full, bits - 1, 0)
            ov = sx.cmp_('ne', sx.sext(r, bits, w), full, w)
            env[ins.res] = [r, ov]
            return
        m = re.match(r'@llvm\.(uadd|usub)\.sat\.i(\d+)', n)
        if m:
            o, bits = m.group(1), int(m.group(2))
            x, y = argv[0], argv[1]
            if o == 'uadd':
                r = sx.bin_('add', x, y, bits)
                env[ins.res] = ite(_gn(sx.cmp_('ult', r, x, bits)), mask(bits), r, bits)
            else:
                env[ins.res] = ite(_gn(sx.cmp_('ult', x, y, bits)), 0, sx.bin_('sub', x, y, bits), bits)
            return
        m = re.match(r'@llvm\.(scmp|ucmp)\.i(\d+)\.i(\d+)', n)
        if m:
            o, rb, ab = m.group(1), int(m.group(2)), int(m.group(3))
            x, y = argv[0], argv[1]
            lt = _gn(self.icmp('slt' if o == 'scmp' else 'ult', x, y, ab))
            gt = _gn(self.icmp('sgt' if o == 'scmp' else 'ugt', x, y, ab))
            env[ins.res] = ite(lt, mask(rb), ite(gt, 1, 0, rb), rb)
            return
        m = re.match(r'@llvm\.(ctpop|ctlz|cttz)\.i(\d+)', n)
        if m:
            o, bits = m.group(1), int(m.group(2))
            x = argv[0]
            if o == 'ctpop':
                r = 0
                for k in range(bits):
                    r = sx.bin_('add', r, sx.zext(sx.extract(x, k, k), 1, bits), bits)
            else:
                # number of leading / trailing zeros; `bits` when x == 0
                r = bits
                rng = range(bits) if o == 'ctlz' else reversed(range(bits))
                for k in rng:
                    cnt = (bits - 1 - k) if o == 'ctlz' else k
                    r = ite(_gn(sx.extract(x, k, k)), cnt, r, bits)
            env[ins.res] = r
            return
        m = re.match(r'@llvm\.abs\.i(\d+)', n)
        if m:
            bits = int(m.group(1))
            x = argv[0]
            env[ins.res] = ite(_gn(sx.cmp_('slt', x, 0, bits)), sx.bin_('sub', 0, x, bits), x, bits)
            return
        m = re.match(r'@llvm\.(fshl|fshr)\.i(\d+)', n)
        if m and is_c(argv[2]):
            o, bits = m.group(1), int(m.group(2))
            sh = argv[2] % bits
            a_, b_ = argv[0], argv[1]
            if sh == 0:
                env[ins.res] = a_ if o == 'fshl' else b_
            else:
                w = sx.concat(a_, bits, b_, bits)
                lo = (bits - sh) if o == 'fshl' else sh
                env[ins.res] = sx.extract(w, lo + bits - 1, lo)
            return
        m = re.match(r'@llvm\.bswap\.i(\d+)', n)
        if m:
            bits = int(m.group(1))
            x = argv[0]
            r = None
            w = 0
            for k in range(bits // 8):
                byte = sx.extract(x, 8 * k + 7, 8 * k)
                r = byte if r is None else sx.concat(r, w, byte, 8)
                w += 8
            env[ins.res] = r
            return
        if n.startswith('@llvm.expect'):
            env[ins.res] = argv[0]
            return
        if n.startswith('@llvm.is.constant'):
            env[ins.res] = 0
            return
        raise Unsupported('intrinsic %s' % n)


# ----------------------------------------------------------------------------- driver
def run_entry(mod, fname, nbytes, unwind=8, concrete=None, fixed=None):
    """fixed: {byte index: value} input bytes held concrete (case split); the rest are symbolic"""
    ex = Exec(mod, unwind=unwind)
    f = mod.funcs[fname]
    mem = ex.gmem.fork()
    if concrete is None:
        inp = [sx.var('in_%d' % i, 8) for i in range(nbytes)]
        for k, v in (fixed or {}).items():
            inp[int(k)] = int(v)
    else:
        inp = list(concrete) + [0] * (nbytes - len(concrete))
    oid = ex.new_obj(mem, nbytes, 'input')
    for i, b in enumerate(inp):
        mem.objs[oid].b[i] = b if is_c(b) else ('w', 1, 0, b)
    st = State(True, None, mem)
    rets = ex.run_function(f, [Ptr.to(oid)], st)
    return ex, inp, rets


def demangle(n):
    """readable approximation of a v0-mangled Rust symbol (identifiers in order of appearance)"""
    n = n.lstrip('@')
    if not n.startswith('_R'):
        return n
    parts = []
    i = 2
    L = len(n)
    while i < L:
        if n[i].isdigit() and (i == 0 or not n[i - 1].isdigit()):
            j = i
            while j < L and n[j].isdigit():
                j += 1
            k = int(n[i:j])
            if j < L and n[j] == '_':
                j += 1
            if 0 < k <= 64 and j + k <= L and re.fullmatch(r'[A-Za-z_][A-Za-z0-9_]*', n[j:j + k] or ' '):
                parts.append(n[j:j + k])
                i = j + k
                continue
        i += 1
    return '::'.join(parts) if parts else n


_MODS = {}


def load_module(path):
    m = _MODS.get(path)
    if m is None:
        m = parse_module(open(path).read())
        _MODS[path] = m
    return m


def run_concrete(path, fname, data, nbytes, unwind=64):
    """concrete-mode execution of the same interpreter: returns int return value or 'panic'/'bound'"""
    mod = load_module(path)
    ex, inp, rets = run_entry(mod, '@' + fname, nbytes, unwind=unwind, concrete=data)
    for g, v, _, _p in rets:
        if g is True:
            return v
    for g, m in ex.res.bounds:
        if g is True:
            return 'bound'
    for g, m in ex.res.panics:
        if g is True:
            return 'panic'
    return 'none'


def analyze(path, fname, nbytes=96, unwind=8, timeout_s=600, covers=(), extra_queries=None, smt_dump=None, fixed=None,
            out_of_range=None):
    """symbolically execute `fname` and discharge the standard queries.
    Returns dict: queries=[{name, verdict, solve_s, model(hex)?}], stats, functions."""
    t0 = time.time()
    mod = load_module(path)
    t1 = time.time()
    ex, inp, rets = run_entry(mod, '@' + fname, nbytes, unwind=unwind, fixed=fixed)
    t2 = time.time()
    if os.environ.get('LLSYM_DEBUG'):
        sys.stderr.write('symex done %.2fs stats %s nodes %d feas %s\n' % (t2 - t1, ex.res.stats, sx._CNT[0], FEAS_STATS))
    retv = None
    retg = False
    for g, v, _, _p in rets:
        retv = v if retv is None else ite(g, v, retv, 8)
        retg = g_or(retg, g)

    def disj(lst):
        r = False
        for g, _ in lst:
            r = g_or(r, g)
        return r
    panic = disj(ex.res.panics)
    bound = disj(ex.res.bounds)
    unw = False
    for g in ex.res.unwind:
        unw = g_or(unw, g)
    zin = [z3.BitVec('in_%d' % i, 8) for i in range(nbytes)]
    out = {'harness': fname, 'parse_s': round(t1 - t0, 3), 'symex_s': round(t2 - t1, 3), 'stats': dict(ex.res.stats),
           'nodes': sx._CNT[0], 'functions': sorted({demangle(n) for n in ex.res.funcs}),
           'panic_sites': sorted({demangle(m) for _, m in ex.res.panics}), 'queries': [],
           'unwind_bound': unwind, 'loops_residual': len(ex.res.unwind)}

    def retis(k):
        if retv is None:
            return False
        return g_and(retg, _gn(sx.cmp_('eq', retv, k, 8)))

    def solve(name, cond, expect):
        q = {'name': name, 'expect': expect}
        if cond is False:
            q.update(verdict='unsat', solve_s=0.0, trivial=True)
            return q
        s = z3.SolverFor('QF_BV')
        s.set('timeout', int(timeout_s * 1000))
        t = time.time()
        s.add(sx.guard_z3(cond))
        if smt_dump:
            with open('%s.%s.smt2' % (smt_dump, name.replace('=', '_').replace(' ', '_')), 'w') as f:
                f.write('(set-logic QF_BV)\n' + s.to_smt2())
        r = s.check()
        q['solve_s'] = round(time.time() - t, 3)
        if os.environ.get('LLSYM_DEBUG'):
            sys.stderr.write('query %s -> %s %.2fs\n' % (name, r, q['solve_s']))
        if r == z3.sat:
            m = s.model()
            vals = [m.eval(b, model_completion=True).as_long() for b in zin]
            for k, v in (fixed or {}).items():
                vals[int(k)] = int(v)
            q.update(verdict='sat', model=bytes(vals).hex())
        elif r == z3.unsat:
            q['verdict'] = 'unsat'
        else:
            q.update(verdict='unknown', reason=s.reason_unknown())
        return q

    todo = [('violation', retis(0), 'unsat'), ('panic', panic, 'unsat'), ('bound-exceeded', bound, 'unsat'),
            ('unwind-exceeded', unw, 'unsat')]
    ubg = False
    for g in ex.res.ub:
        ubg = g_or(ubg, g)
    todo.append(('invalid-deref', ubg, 'unsat'))
    todo.append(('witness', retis(1), 'sat'))
    for c in covers:
        todo.append(('cover=%d' % c, retis(c), 'sat'))
    for name, k, expect in (extra_queries or []):
        todo.append((name, retis(k), expect))
    qjobs = int(os.environ.get('LLSYM_QJOBS', '3'))
    hard = [t_ for t_ in todo if t_[1] is not False]
    if qjobs <= 1 or len(hard) <= 1 or smt_dump:
        out['queries'] = [solve(*t_) for t_ in todo]
    else:
        # the queries are independent: discharge them in forked children (the expression DAG is inherited,
        # every child builds its own z3 terms), at most `qjobs` at a time
        import json as _json
        results = {}
        pending = list(enumerate(todo))
        running = {}
        while pending or running:
            while pending and len(running) < qjobs:
                idx, t_ = pending.pop(0)
                if t_[1] is False:
                    results[idx] = solve(*t_)
                    continue
                r_fd, w_fd = os.pipe()
                pid = os.fork()
                if pid == 0:
                    os.close(r_fd)
                    try:
                        res = solve(*t_)
                    except BaseException as e:  # noqa
                        res = {'name': t_[0], 'expect': t_[2], 'verdict': 'unknown', 'reason': 'solver process failed: %s' % str(e)[:200], 'solve_s': 0.0}
                    with os.fdopen(w_fd, 'w') as f:
                        f.write(_json.dumps(res))
                    os._exit(0)
                os.close(w_fd)
                running[pid] = (idx, r_fd, t_)
            if running:
                pid, status = os.wait()
                if pid in running:
                    idx, r_fd, t_ = running.pop(pid)
                    with os.fdopen(r_fd) as f:
                        data = f.read()
                    try:
                        results[idx] = _json.loads(data)
                    except ValueError:
                        results[idx] = {'name': t_[0], 'expect': t_[2], 'verdict': 'unknown', 'solve_s': 0.0,
                                        'reason': 'solver process died (status %d): out of memory?' % status}
        out['queries'] = [results[i] for i in range(len(todo))]
    out['total_s'] = round(time.time() - t0, 3)
    return out


def main():
    import json
    path, fname = sys.argv[1], sys.argv[2]
    nbytes = int(sys.argv[3]) if len(sys.argv) > 3 else 96
    if len(sys.argv) > 4 and sys.argv[4] != '-':
        print(run_concrete(path, fname, bytes.fromhex(sys.argv[4]), nbytes))
        return
    r = analyze(path, fname, nbytes)
    print(json.dumps(r, indent=1))


if __name__ == '__main__':
    main()
