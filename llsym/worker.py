#!/usr/bin/env python3
"""subprocess entry point: reads one JSON request on stdin, writes one JSON result on stdout"""
import json, os, sys, traceback
sys.path.insert(0, os.path.dirname(os.path.abspath(__file__)))
import llsym


def main():
    req = json.load(sys.stdin)
    if 'concrete' in req:
        out = []
        for fn, hexin, unwind in req['concrete']:
            try:
                out.append(llsym.run_concrete(req['ir'], fn, bytes.fromhex(hexin), req['nbytes'], unwind=max(unwind, 64)))
            except Exception as e:  # noqa
                out.append('error: %s' % str(e)[:300])
        json.dump({'results': out}, sys.stdout)
        return
    try:
        r = llsym.analyze(req['ir'], req['fn'], req['nbytes'], req['unwind'], req['timeout_s'], covers=req.get('covers', ()),
                          extra_queries=req.get('extra'), fixed=req.get('fixed'), smt_dump=req.get('smt_dump'))
    except (llsym.Unsupported, llsym.MemError) as e:
        r = {'harness': req['fn'], 'error': 'unsupported by the encoder: %s' % e, 'queries': []}
    except MemoryError:
        r = {'harness': req['fn'], 'error': 'out of memory in the encoder', 'queries': []}
    except Exception:
        r = {'harness': req['fn'], 'error': 'encoder crashed: %s' % traceback.format_exc()[-2500:], 'queries': []}
    json.dump(r, sys.stdout)


if __name__ == '__main__':
    main()
