"""PROTOTYPE: hash-consed bit-vector expression DAG with cheap local simplification.
Concrete values are Python ints (caller tracks widths); symbolic values are E nodes.
Booleans are 1-bit vectors; guards may also be Python True/False."""
import z3

_TAB = {}
_CNT = [0]


class E:
    __slots__ = ('op', 'bits', 'args', 'id', 'cl', 'z')

    def __init__(self, op, bits, args, cl):
        self.op, self.bits, self.args, self.cl = op, bits, args, cl
        _CNT[0] += 1
        self.id = _CNT[0]
        self.z = None

    def size(self):
        return self.bits

    def __repr__(self):
        return 'E#%d(%s/%d)' % (self.id, self.op, self.bits)


def is_c(v):
    return isinstance(v, int)


def mask(b):
    return (1 << b) - 1


def sxt(v, bits):
    return v - (1 << bits) if (v >> (bits - 1)) & 1 else v


def _key(a):
    return a if isinstance(a, int) else ('e', a.id)


def mk(op, bits, args, cl=False):
    k = (op, bits) + tuple(_key(a) for a in args)
    e = _TAB.get(k)
    if e is None:
        e = E(op, bits, args, cl)
        _TAB[k] = e
    return e


def var(name, bits):
    return mk('var:' + name, bits, ())


CL_LIMIT = 64


def _clsize(x):
    if is_c(x):
        return 1
    return x.cl if x.cl else 0


def ite(c, a, b, bits):
    """c: 1-bit (int or E). a,b: bits-wide"""
    if is_c(c):
        return a if c & 1 else b
    if a is b or (is_c(a) and is_c(b) and a == b):
        return a
    if c.op == 'not':
        return ite(c.args[0], b, a, bits)
    if bits == 1 and is_c(a) and is_c(b):
        return c if a == 1 else not_(c)
    # collapse nested ites on the same condition
    if not is_c(a) and a.op == 'ite' and a.args[0] is c:
        a = a.args[1]
    if not is_c(b) and b.op == 'ite' and b.args[0] is c:
        b = b.args[2]
    if a is b or (is_c(a) and is_c(b) and a == b):
        return a
    if bits == 1:
        if is_c(a):
            return or_(c, b, 1) if a == 1 else and_(not_(c), b, 1)
        if is_c(b):
            return and_(c, a, 1) if b == 0 else or_(not_(c), a, 1)
    sa, sb = _clsize(a), _clsize(b)
    cl = sa + sb if (sa and sb and sa + sb <= CL_LIMIT) else False
    return mk('ite', bits, (c, a, b), cl)


def not_(x):
    if is_c(x):
        return (~x) & 1
    if x.op == 'not':
        return x.args[0]
    return mk('not', 1, (x,))


def and_(x, y, bits):
    if is_c(x) and is_c(y):
        return x & y
    if is_c(y):
        x, y = y, x
    if is_c(x):
        if x == 0:
            return 0
        if x == mask(bits):
            return y
    elif x is y:
        return x
    if bits == 1:
        if (not is_c(x) and x.op == 'not' and x.args[0] is y) or (not is_c(y) and y.op == 'not' and y.args[0] is x):
            return 0
        # absorb: and(x, and(x, z))
        if not is_c(y) and y.op == 'and' and (y.args[0] is x or y.args[1] is x):
            return y
        if not is_c(x) and x.op == 'and' and (x.args[0] is y or x.args[1] is y):
            return x
    if not is_c(x) and not is_c(y) and x.id > y.id:
        x, y = y, x
    return mk('and', bits, (x, y))


def or_(x, y, bits):
    if is_c(x) and is_c(y):
        return x | y
    if is_c(y):
        x, y = y, x
    if is_c(x):
        if x == 0:
            return y
        if x == mask(bits):
            return x
    elif x is y:
        return x
    if bits == 1:
        if (not is_c(x) and x.op == 'not' and x.args[0] is y) or (not is_c(y) and y.op == 'not' and y.args[0] is x):
            return 1
        if not is_c(y) and y.op == 'or' and (y.args[0] is x or y.args[1] is x):
            return y
        if not is_c(x) and x.op == 'or' and (x.args[0] is y or x.args[1] is y):
            return x
    if not is_c(x) and not is_c(y) and x.id > y.id:
        x, y = y, x
    return mk('or', bits, (x, y))


def xor_(x, y, bits):
    if is_c(x) and is_c(y):
        return x ^ y
    if is_c(y):
        x, y = y, x
    if is_c(x):
        if x == 0:
            return y
        if bits == 1 and x == 1:
            return not_(y)
    elif x is y:
        return 0
    return mk('xor', bits, (x, y))


def _push1(f, x):
    """apply unary int->int function f through a const-leaf ite tree"""
    if is_c(x):
        return f(x)
    c, a, b = x.args
    return (c, _push1(f, a), _push1(f, b))


def _rebuild(t, bits):
    if is_c(t):
        return t
    c, a, b = t
    return ite(c, _rebuild(a, bits), _rebuild(b, bits), bits)


def map_cl(f, x, obits):
    """x is a const-leaf ite tree; apply f to leaves producing obits-wide result"""
    return _rebuild(_push1(f, x), obits)


def _cmpc(pred, x, y, bits):
    if pred == 'eq':
        return int(x == y)
    if pred == 'ne':
        return int(x != y)
    if pred[0] == 'u':
        a, b = x, y
    else:
        a, b = sxt(x, bits), sxt(y, bits)
    p = pred[1:]
    return int({'gt': a > b, 'ge': a >= b, 'lt': a < b, 'le': a <= b}[p])


def cmp_(pred, x, y, bits):
    if is_c(x) and is_c(y):
        return _cmpc(pred, x, y, bits)
    if x is y:
        return int(pred in ('eq', 'uge', 'ule', 'sge', 'sle'))
    if is_c(y) and not is_c(x) and x.cl:
        return map_cl(lambda v: _cmpc(pred, v, y, bits), x, 1)
    if is_c(x) and not is_c(y) and y.cl:
        return map_cl(lambda v: _cmpc(pred, x, v, bits), y, 1)
    if bits == 1 and pred in ('eq', 'ne'):
        if is_c(y):
            x, y = y, x
        if is_c(x):
            r = y if x == 1 else not_(y)
            return r if pred == 'eq' else not_(r)
    if pred == 'ne':
        return not_(cmp_('eq', x, y, bits))
    if pred == 'eq' and not is_c(x) and not is_c(y) and x.id > y.id:
        x, y = y, x
    # eq against constant pushed through a (non-cl) ite whose branches are constants on one side
    if pred == 'eq' and is_c(y) and not is_c(x) and x.op == 'ite':
        c, a, b = x.args
        if is_c(a) or is_c(b):
            return ite(c, cmp_('eq', a, y, bits), cmp_('eq', b, y, bits), 1)
    if pred == 'eq' and is_c(x) and not is_c(y) and y.op == 'ite':
        c, a, b = y.args
        if is_c(a) or is_c(b):
            return ite(c, cmp_('eq', a, x, bits), cmp_('eq', b, x, bits), 1)
    # zext-aware constant compare
    return mk('cmp:' + pred, 1, (x, y))


def _binc(o, x, y, bits):
    m = mask(bits)
    if o == 'add':
        return (x + y) & m
    if o == 'sub':
        return (x - y) & m
    if o == 'mul':
        return (x * y) & m
    if o == 'shl':
        return (x << y) & m if y < bits else 0
    if o == 'lshr':
        return (x >> y) if y < bits else 0
    if o == 'ashr':
        return (sxt(x, bits) >> min(y, bits - 1)) & m
    if o == 'udiv':
        return x // y if y else 0
    if o == 'urem':
        return x % y if y else 0
    if o == 'sdiv':
        a, b = sxt(x, bits), sxt(y, bits)
        return (int(a / b) if b else 0) & m
    if o == 'srem':
        a, b = sxt(x, bits), sxt(y, bits)
        return ((a - b * int(a / b)) if b else 0) & m
    raise ValueError(o)


def bin_(o, x, y, bits):
    if o == 'and':
        return and_(x, y, bits)
    if o == 'or':
        return or_(x, y, bits)
    if o == 'xor':
        return xor_(x, y, bits)
    if is_c(x) and is_c(y):
        return _binc(o, x, y, bits)
    if is_c(y):
        if y == 0 and o in ('add', 'sub', 'shl', 'lshr', 'ashr'):
            return x
        if y == 1 and o in ('mul', 'udiv'):
            return x
        if y == 0 and o == 'mul':
            return 0
        if x.cl:
            return map_cl(lambda v: _binc(o, v, y, bits), x, bits)
    if is_c(x):
        if x == 0 and o == 'add':
            return y
        if x == 0 and o in ('mul', 'shl', 'lshr'):
            return 0
        if x == 1 and o == 'mul':
            return y
        if y.cl:
            return map_cl(lambda v: _binc(o, x, v, bits), y, bits)
    if not is_c(x) and not is_c(y) and x.cl and y.cl and x.cl * y.cl <= 16:
        return map_cl(lambda v: v, _rebuild(_push1(lambda a: ('x', a), x), bits), bits) if False else \
            _cl2(o, x, y, bits)
    if o in ('add', 'mul') and not is_c(x) and not is_c(y) and x.id > y.id:
        x, y = y, x
    # (x + c1) + c2
    if o == 'add' and is_c(y) and not is_c(x) and x.op == 'add' and is_c(x.args[1]):
        return bin_('add', x.args[0], (x.args[1] + y) & mask(bits), bits)
    if o == 'add' and is_c(x):
        x, y = y, x
    return mk(o, bits, (x, y))


def _cl2(o, x, y, bits):
    def go(a):
        if is_c(a):
            return map_cl(lambda v: _binc(o, a, v, bits), y, bits)
        c, p, q = a.args
        return ite(c, go(p), go(q), bits)
    return go(x)


def zext(x, b1, b2):
    if is_c(x):
        return x
    if x.cl:
        return map_cl(lambda v: v, x, b2)
    if x.op == 'zext':
        return mk('zext', b2, (x.args[0],))
    return mk('zext', b2, (x,))


def sext(x, b1, b2):
    if is_c(x):
        return sxt(x, b1) & mask(b2)
    if x.cl:
        return map_cl(lambda v: sxt(v, b1) & mask(b2), x, b2)
    if b1 == 1:
        return ite(x, mask(b2), 0, b2)
    return mk('sext', b2, (x,))


def extract(x, hi, lo):
    """bits [hi:lo] of x"""
    w = hi - lo + 1
    if is_c(x):
        return (x >> lo) & mask(w)
    if lo == 0 and w == x.bits:
        return x
    if x.cl:
        return map_cl(lambda v: (v >> lo) & mask(w), x, w)
    if x.op == 'zext':
        inner = x.args[0]
        if hi < inner.bits:
            return extract(inner, hi, lo)
        if lo >= inner.bits:
            return 0
        if lo == 0:
            return zext(inner, inner.bits, w)
    if x.op == 'concat':
        # args: (hi_part, lo_part)
        h, l, hb, lb = x.args
        if hi < lb:
            return extract(l, hi, lo)
        if lo >= lb:
            return extract(h, hi - lb, lo - lb)
    if x.op == 'extract':
        return extract(x.args[0], x.args[2] + hi, x.args[2] + lo)
    if x.op == 'ite':
        c, a, b = x.args
        if is_c(a) or is_c(b):
            return ite(c, extract(a, hi, lo), extract(b, hi, lo), w)
    return mk('extract', w, (x, hi, lo))


def concat(h, hb, l, lb):
    """h (hb bits) : l (lb bits)"""
    if is_c(h) and is_c(l):
        return (h << lb) | l
    if is_c(h) and h == 0:
        return zext(l, lb, hb + lb)
    # adjacent extracts of the same term
    if not is_c(h) and not is_c(l) and h.op == 'extract' and l.op == 'extract' and h.args[0] is l.args[0] \
            and h.args[2] == l.args[1] + 1:
        return extract(h.args[0], h.args[1], l.args[2])
    return mk('concat', hb + lb, (h, l, hb, lb))


# ------------------------------------------------------------------ to z3
def to_z3(x, bits=None):
    if is_c(x):
        return z3.BitVecVal(x, bits)
    if x.z is not None:
        return x.z
    # iterative post-order
    stack = [x]
    while stack:
        e = stack[-1]
        if e.z is not None:
            stack.pop()
            continue
        pend = [a for a in e.args if isinstance(a, E) and a.z is None]
        if pend:
            stack.extend(pend)
            continue
        stack.pop()
        e.z = _conv(e)
    return x.z


def _z(a, bits):
    return z3.BitVecVal(a, bits) if is_c(a) else a.z


def _conv(e):
    op, bits, a = e.op, e.bits, e.args
    if op.startswith('var:'):
        return z3.BitVec(op[4:], bits)
    if op == 'ite':
        return z3.If(_z(a[0], 1) == 1, _z(a[1], bits), _z(a[2], bits))
    if op == 'not':
        return ~_z(a[0], 1)
    if op in ('and', 'or', 'xor', 'add', 'sub', 'mul', 'shl', 'lshr', 'ashr', 'udiv', 'urem', 'sdiv', 'srem'):
        x, y = _z(a[0], bits), _z(a[1], bits)
        return {'and': lambda: x & y, 'or': lambda: x | y, 'xor': lambda: x ^ y, 'add': lambda: x + y,
                'sub': lambda: x - y, 'mul': lambda: x * y, 'shl': lambda: x << y, 'lshr': lambda: z3.LShR(x, y),
                'ashr': lambda: x >> y, 'udiv': lambda: z3.UDiv(x, y), 'urem': lambda: z3.URem(x, y),
                'sdiv': lambda: x / y, 'srem': lambda: z3.SRem(x, y)}[op]()
    if op.startswith('cmp:'):
        p = op[4:]
        w = a[0].bits if not is_c(a[0]) else a[1].bits
        x, y = _z(a[0], w), _z(a[1], w)
        r = {'eq': lambda: x == y, 'ugt': lambda: z3.UGT(x, y), 'uge': lambda: z3.UGE(x, y),
             'ult': lambda: z3.ULT(x, y), 'ule': lambda: z3.ULE(x, y), 'sgt': lambda: x > y, 'sge': lambda: x >= y,
             'slt': lambda: x < y, 'sle': lambda: x <= y}[p]()
        return z3.If(r, z3.BitVecVal(1, 1), z3.BitVecVal(0, 1))
    if op == 'zext':
        return z3.ZeroExt(bits - a[0].bits, a[0].z)
    if op == 'sext':
        return z3.SignExt(bits - a[0].bits, a[0].z)
    if op == 'extract':
        return z3.Extract(a[1], a[2], a[0].z)
    if op == 'concat':
        return z3.Concat(_z(a[0], a[2]), _z(a[1], a[3]))
    raise ValueError(op)


def guard_z3(g):
    if g is True or g == 1:
        return z3.BoolVal(True)
    if g is False or g == 0:
        return z3.BoolVal(False)
    return to_z3(g) == 1


def leaves(x, limit=64):
    """(guard, int) leaves of a const-leaf tree"""
    if is_c(x):
        return [(1, x)]
    if not x.cl:
        return None
    out = []

    def go(e, g):
        if is_c(e):
            out.append((g, e))
            return
        c, a, b = e.args
        go(a, and_(g, c, 1))
        go(b, and_(g, not_(c), 1))
    go(x, 1)
    return out
