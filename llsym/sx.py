"""PROTOTYPE: hash-consed bit-vector expression DAG with cheap local simplification.
Concrete values are Python ints (caller tracks widths); symbolic values are E nodes.
Booleans are 1-bit vectors; guards may also be Python True/False."""
import z3
import os as _os

_TAB = {}
_CNT = [0]


class E:
    __slots__ = ('op', 'bits', 'args', 'id', 'cl', 'z')

    def __init__(self, op, bits, args, cl):
        self.op, self.bits, self.args, self.cl = op, bits, args, cl
        _CNT[0] += 1
        self.id = _CNT[0]
        self.z = None

    def size(self):
        return self.bits

    def __repr__(self):
        return 'E#%d(%s/%d)' % (self.id, self.op, self.bits)


def is_c(v):
    return isinstance(v, int)


def mask(b):
    return (1 << b) - 1


def sxt(v, bits):
    return v - (1 << bits) if (v >> (bits - 1)) & 1 else v


def _key(a):
    if isinstance(a, int):
        return a
    if isinstance(a, tuple):
        return (a[0], _key(a[1]))
    return ('e', a.id)


def mk(op, bits, args, cl=False):
    k = (op, bits) + tuple(_key(a) for a in args)
    e = _TAB.get(k)
    if e is None:
        e = E(op, bits, args, cl)
        _TAB[k] = e
    return e


def var(name, bits):
    return mk('var:' + name, bits, ())


CL_LIMIT = 40


def _clsize(x):
    if is_c(x):
        return 1
    return x.cl if x.cl else 0


def _pairs(x):
    """(value, guard) pairs of a constant or a 'cl' node"""
    if is_c(x):
        return ((x, 1),)
    return x.args


def mkcl(pairs, bits):
    """canonical guarded-constant set: pairs [(value, guard)], guards mutually exclusive and exhaustive.
    Equal values are merged, false guards dropped; returns an int when only one value remains."""
    d = {}
    for v, g in pairs:
        if is_c(g) and g == 0:
            continue
        o = d.get(v)
        d[v] = g if o is None else or_(o, g, 1)
    if not d:
        return 0  # unreachable state: any value will do
    for v, g in d.items():
        if is_c(g) and g == 1:
            return v
    if len(d) == 1:
        return next(iter(d))
    items = tuple(sorted(d.items()))
    if len(items) <= 8:
        gs = [g for _, g in items]
        for i in range(len(gs)):
            for j in range(i + 1, len(gs)):
                a, b = gs[i].id, gs[j].id
                EXCL.add((a, b) if a < b else (b, a))
    return mk('cl', bits, items, len(items))


# pairs of guard node ids known to be mutually exclusive (guards of one guarded-constant set)
EXCL = set()
_CONJ = {}


def conjuncts(x, limit=400):
    """ids of the conjuncts of a nested and-chain (cached); atoms are kept as they are"""
    r = _CONJ.get(x.id)
    if r is not None:
        return r
    out = {}
    stack = [x]
    while stack:
        e = stack.pop()
        if e.op == 'and' and e.bits == 1:
            for a in e.args:
                if isinstance(a, E):
                    c = _CONJ.get(a.id)
                    if c is not None and a.op == 'and':
                        out.update(c)
                    else:
                        stack.append(a)
        else:
            out[e.id] = e
        if len(out) > limit:
            break
    _CONJ[x.id] = out
    return out


def contradicts(x, y):
    """cheap syntactic proof that x and y cannot both hold (sound, incomplete)"""
    if is_c(x) or is_c(y):
        return (is_c(x) and x == 0) or (is_c(y) and y == 0)
    if not _os.environ.get('LLSYM_CONTRA'):
        return False  # syntactic contradiction pruning is opt-in: it made merge lemmas slower, see DESIGN.md §9
    cx, cy = conjuncts(x), conjuncts(y)
    if len(cy) > len(cx):
        cx, cy = cy, cx
    if len(cy) > 24:
        return False
    for i, e in cy.items():
        # negation present on the other side?
        if e.op == 'not':
            if e.args[0].id in cx:
                return True
        else:
            n = _TAB.get(('not', 1, ('e', i)))
            if n is not None and n.id in cx:
                return True
        for j in cx:
            if ((i, j) if i < j else (j, i)) in EXCL:
                return True
    return False


def ite(c, a, b, bits):
    """c: 1-bit (int or E). a,b: bits-wide"""
    if is_c(c):
        return a if c & 1 else b
    if a is b or (is_c(a) and is_c(b) and a == b):
        return a
    if c.op == 'not':
        return ite(c.args[0], b, a, bits)
    if bits == 1 and is_c(a) and is_c(b):
        return c if a == 1 else not_(c)
    # collapse nested ites on the same condition
    if not is_c(a) and a.op == 'ite' and a.args[0] is c:
        a = a.args[1]
    if not is_c(b) and b.op == 'ite' and b.args[0] is c:
        b = b.args[2]
    if a is b or (is_c(a) and is_c(b) and a == b):
        return a
    if bits == 1:
        if is_c(a):
            return or_(c, b, 1) if a == 1 else and_(not_(c), b, 1)
        if is_c(b):
            return and_(c, a, 1) if b == 0 else or_(not_(c), a, 1)
    sa, sb = _clsize(a), _clsize(b)
    if sa and sb and bits > 1:
        nc = not_(c)
        r = mkcl([(v, and_(c, g, 1)) for v, g in _pairs(a)] + [(v, and_(nc, g, 1)) for v, g in _pairs(b)], bits)
        if is_c(r) or r.cl <= CL_LIMIT:
            return r
    # bounded-reader pattern  ite(x > k, d, x): expand to a guarded-constant set
    if bits <= 8 and c.op.startswith('cmp:u') and ((not is_c(b) and b.op.startswith('var:')) or (not is_c(a) and a.op.startswith('var:'))):
        r = expand_small(mk('ite', bits, (c, a, b), False), bits, 16)
        if r is not None:
            return r
    return mk('ite', bits, (c, a, b), False)


def not_(x):
    if is_c(x):
        return (~x) & 1
    if x.op == 'not':
        return x.args[0]
    return mk('not', 1, (x,))


def and_(x, y, bits):
    if is_c(x) and is_c(y):
        return x & y
    if is_c(y):
        x, y = y, x
    if is_c(x):
        if x == 0:
            return 0
        if x == mask(bits):
            return y
    elif x is y:
        return x
    if bits == 1:
        if (not is_c(x) and x.op == 'not' and x.args[0] is y) or (not is_c(y) and y.op == 'not' and y.args[0] is x):
            return 0
        # absorb: and(x, and(x, z))
        if not is_c(y) and y.op == 'and' and (y.args[0] is x or y.args[1] is x):
            return y
        if not is_c(x) and x.op == 'and' and (x.args[0] is y or x.args[1] is y):
            return x
    if not is_c(x) and not is_c(y) and x.id > y.id:
        x, y = y, x
    return mk('and', bits, (x, y))


def or_(x, y, bits):
    if is_c(x) and is_c(y):
        return x | y
    if is_c(y):
        x, y = y, x
    if is_c(x):
        if x == 0:
            return y
        if x == mask(bits):
            return x
    elif x is y:
        return x
    if bits == 1:
        if (not is_c(x) and x.op == 'not' and x.args[0] is y) or (not is_c(y) and y.op == 'not' and y.args[0] is x):
            return 1
        if not is_c(y) and y.op == 'or' and (y.args[0] is x or y.args[1] is x):
            return y
        if not is_c(x) and x.op == 'or' and (x.args[0] is y or x.args[1] is y):
            return x
    if not is_c(x) and not is_c(y) and x.id > y.id:
        x, y = y, x
    return mk('or', bits, (x, y))


def xor_(x, y, bits):
    if is_c(x) and is_c(y):
        return x ^ y
    if is_c(y):
        x, y = y, x
    if is_c(x):
        if x == 0:
            return y
        if bits == 1 and x == 1:
            return not_(y)
    elif x is y:
        return 0
    return mk('xor', bits, (x, y))


def map_cl(f, x, obits):
    """x is a constant or guarded-constant set; apply f to the values producing an obits-wide result"""
    if is_c(x):
        return f(x)
    if obits == 1:
        yes = [g for v, g in x.args if f(v) & 1]
        no = [g for v, g in x.args if not f(v) & 1]
        # the guards are exhaustive: express the predicate through the smaller side
        if len(no) < len(yes) and not _os.environ.get('LLSYM_NO_NORMPRED'):
            r = 0
            for g in no:
                r = or_(r, g, 1)
            return not_(r)
        r = 0
        for g in yes:
            r = or_(r, g, 1)
        return r
    return mkcl([(f(v), g) for v, g in x.args], obits)


def _cmpc(pred, x, y, bits):
    if pred == 'eq':
        return int(x == y)
    if pred == 'ne':
        return int(x != y)
    if pred[0] == 'u':
        a, b = x, y
    else:
        a, b = sxt(x, bits), sxt(y, bits)
    p = pred[1:]
    return int({'gt': a > b, 'ge': a >= b, 'lt': a < b, 'le': a <= b}[p])


def cmp_(pred, x, y, bits):
    if is_c(x) and is_c(y):
        return _cmpc(pred, x, y, bits)
    if x is y:
        return int(pred in ('eq', 'uge', 'ule', 'sge', 'sle'))
    if is_c(y) and not is_c(x) and x.cl:
        return map_cl(lambda v: _cmpc(pred, v, y, bits), x, 1)
    if is_c(x) and not is_c(y) and y.cl:
        return map_cl(lambda v: _cmpc(pred, x, v, bits), y, 1)
    if not is_c(x) and not is_c(y) and x.cl and y.cl and x.cl * y.cl <= 100:
        r = 0
        for vx, gx in x.args:
            for vy, gy in y.args:
                if _cmpc(pred, vx, vy, bits):
                    r = or_(r, and_(gx, gy, 1), 1)
        return r
    if bits == 1 and pred in ('eq', 'ne'):
        if is_c(y):
            x, y = y, x
        if is_c(x):
            r = y if x == 1 else not_(y)
            return r if pred == 'eq' else not_(r)
    if pred == 'ne':
        return not_(cmp_('eq', x, y, bits))
    if pred == 'eq' and not is_c(x) and not is_c(y) and x.id > y.id:
        x, y = y, x
    # eq against constant pushed through a (non-cl) ite whose branches are constants on one side
    if pred == 'eq' and is_c(y) and not is_c(x) and x.op == 'ite':
        c, a, b = x.args
        if is_c(a) or is_c(b):
            return ite(c, cmp_('eq', a, y, bits), cmp_('eq', b, y, bits), 1)
    if pred == 'eq' and is_c(x) and not is_c(y) and y.op == 'ite':
        c, a, b = y.args
        if is_c(a) or is_c(b):
            return ite(c, cmp_('eq', a, x, bits), cmp_('eq', b, x, bits), 1)
    # remember small bounds that input bytes are compared with: candidate domains for pointer offsets that
    # depend on a raw input byte (sound: offsets outside the candidates are recorded as an obligation)
    if pred[0] == 'u':
        if is_c(y) and not is_c(x) and x.op.startswith('var:') and y <= 32:
            HINTS[x.id] = max(HINTS.get(x.id, 0), y)
        elif is_c(x) and not is_c(y) and y.op.startswith('var:') and x <= 32:
            HINTS[y.id] = max(HINTS.get(y.id, 0), x)
    return mk('cmp:' + pred, 1, (x, y))


def _binc(o, x, y, bits):
    m = mask(bits)
    if o == 'add':
        return (x + y) & m
    if o == 'and':
        return x & y
    if o == 'or':
        return x | y
    if o == 'xor':
        return x ^ y
    if o == 'sub':
        return (x - y) & m
    if o == 'mul':
        return (x * y) & m
    if o == 'shl':
        return (x << y) & m if y < bits else 0
    if o == 'lshr':
        return (x >> y) if y < bits else 0
    if o == 'ashr':
        return (sxt(x, bits) >> min(y, bits - 1)) & m
    if o == 'udiv':
        return x // y if y else 0
    if o == 'urem':
        return x % y if y else 0
    if o == 'sdiv':
        a, b = sxt(x, bits), sxt(y, bits)
        return (int(a / b) if b else 0) & m
    if o == 'srem':
        a, b = sxt(x, bits), sxt(y, bits)
        return ((a - b * int(a / b)) if b else 0) & m
    raise ValueError(o)


def bin_(o, x, y, bits):
    if bits > 1 and o in ('and', 'or', 'xor'):
        xc, yc = _clsize(x), _clsize(y)
        if xc and yc and not (is_c(x) and is_c(y)) and xc * yc <= 64:
            if is_c(x):
                return map_cl(lambda v: _binc(o, x, v, bits), y, bits)
            if is_c(y):
                return map_cl(lambda v: _binc(o, v, y, bits), x, bits)
            return _cl2(o, x, y, bits)
    if o == 'and':
        return and_(x, y, bits)
    if o == 'or':
        return or_(x, y, bits)
    if o == 'xor':
        return xor_(x, y, bits)
    if is_c(x) and is_c(y):
        return _binc(o, x, y, bits)
    if is_c(y):
        if y == 0 and o in ('add', 'sub', 'shl', 'lshr', 'ashr'):
            return x
        if y == 1 and o in ('mul', 'udiv'):
            return x
        if y == 0 and o == 'mul':
            return 0
        if x.cl:
            return map_cl(lambda v: _binc(o, v, y, bits), x, bits)
    if is_c(x):
        if x == 0 and o == 'add':
            return y
        if x == 0 and o in ('mul', 'shl', 'lshr'):
            return 0
        if x == 1 and o == 'mul':
            return y
        if y.cl:
            return map_cl(lambda v: _binc(o, x, v, bits), y, bits)
    if not is_c(x) and not is_c(y) and x.cl and y.cl and x.cl * y.cl <= 64:
        return _cl2(o, x, y, bits)
    if o in ('add', 'mul') and not is_c(x) and not is_c(y) and x.id > y.id:
        x, y = y, x
    # (x + c1) + c2
    if o == 'add' and is_c(y) and not is_c(x) and x.op == 'add' and is_c(x.args[1]):
        return bin_('add', x.args[0], (x.args[1] + y) & mask(bits), bits)
    if o == 'add' and is_c(x):
        x, y = y, x
    return mk(o, bits, (x, y))


def _cl2(o, x, y, bits):
    return mkcl([(_binc(o, vx, vy, bits), and_(gx, gy, 1)) for vx, gx in x.args for vy, gy in y.args], bits)


def zext(x, b1, b2):
    if is_c(x):
        return x
    if b1 == 1:
        return ite(x, 1, 0, b2)
    if x.cl:
        return map_cl(lambda v: v, x, b2)
    if b1 <= 8 and not x.op.startswith('var:'):
        r = expand_small(x, b1, 16)
        if r is not None and (is_c(r) or r.cl):
            return map_cl(lambda v: v, r, b2)
    if x.op == 'zext':
        return mk('zext', b2, (x.args[0],))
    return mk('zext', b2, (x,))


def sext(x, b1, b2):
    if is_c(x):
        return sxt(x, b1) & mask(b2)
    if x.cl:
        return map_cl(lambda v: sxt(v, b1) & mask(b2), x, b2)
    if b1 == 1:
        return ite(x, mask(b2), 0, b2)
    return mk('sext', b2, (x,))


def extract(x, hi, lo):
    """bits [hi:lo] of x"""
    w = hi - lo + 1
    if is_c(x):
        return (x >> lo) & mask(w)
    if lo == 0 and w == x.bits:
        return x
    if x.cl:
        return map_cl(lambda v: (v >> lo) & mask(w), x, w)
    if x.op == 'zext':
        inner = x.args[0]
        if hi < inner.bits:
            return extract(inner, hi, lo)
        if lo >= inner.bits:
            return 0
        if lo == 0:
            return zext(inner, inner.bits, w)
    if x.op == 'concat':
        # args: (hi_part, lo_part)
        h, l, hb, lb = x.args
        if hi < lb:
            return extract(l, hi, lo)
        if lo >= lb:
            return extract(h, hi - lb, lo - lb)
    if x.op == 'extract':
        return extract(x.args[0], x.args[2] + hi, x.args[2] + lo)
    if x.op == 'ite':
        c, a, b = x.args
        if is_c(a) or is_c(b) or w <= 16:
            k = (x.id, hi, lo)
            r = _EXT.get(k)
            if r is None:
                r = ite(c, extract(a, hi, lo), extract(b, hi, lo), w)
                _EXT[k] = r
            return r
    return mk('extract', w, (x, hi, lo))


_EXT = {}


def concat(h, hb, l, lb):
    """h (hb bits) : l (lb bits)"""
    if is_c(h) and is_c(l):
        return (h << lb) | l
    if is_c(h) and h == 0:
        return zext(l, lb, hb + lb)
    # re-assembling a value from guarded-constant pieces (a wide cell that was fragmented into bytes by a
    # join): combine the guards; correlated guards collapse, so the result stays a small guarded-constant set
    hc, lc = _clsize(h), _clsize(l)
    if hc and lc and hc * lc <= 64:
        r = mkcl([((vh << lb) | vl, and_(gh, gl, 1)) for vh, gh in _pairs(h) for vl, gl in _pairs(l)], hb + lb)
        if is_c(r) or r.cl <= CL_LIMIT:
            return r
    # adjacent extracts of the same term
    if not is_c(h) and not is_c(l) and h.op == 'extract' and l.op == 'extract' and h.args[0] is l.args[0] \
            and h.args[2] == l.args[1] + 1:
        return extract(h.args[0], h.args[1], l.args[2])
    return mk('concat', hb + lb, (h, l, hb, lb))


# ------------------------------------------------------------------ to z3
def to_z3(x, bits=None):
    if is_c(x):
        return z3.BitVecVal(x, bits)
    if x.z is not None:
        return x.z
    # iterative post-order
    stack = [x]
    while stack:
        e = stack[-1]
        if e.z is not None:
            stack.pop()
            continue
        if e.op == 'cl':
            pend = [g for _, g in e.args if isinstance(g, E) and g.z is None]
        else:
            pend = [a for a in e.args if isinstance(a, E) and a.z is None]
        if pend:
            stack.extend(pend)
            continue
        stack.pop()
        e.z = _conv(e)
    return x.z


def _z(a, bits):
    return z3.BitVecVal(a, bits) if is_c(a) else a.z


def _conv(e):
    op, bits, a = e.op, e.bits, e.args
    if op.startswith('var:'):
        return z3.BitVec(op[4:], bits)
    if op == 'ite':
        return z3.If(_z(a[0], 1) == 1, _z(a[1], bits), _z(a[2], bits))
    if op == 'cl':
        r = z3.BitVecVal(a[-1][0], bits)
        for v, g in reversed(a[:-1]):
            r = z3.If(_z(g, 1) == 1, z3.BitVecVal(v, bits), r)
        return r
    if op == 'not':
        return ~_z(a[0], 1)
    if op in ('and', 'or', 'xor', 'add', 'sub', 'mul', 'shl', 'lshr', 'ashr', 'udiv', 'urem', 'sdiv', 'srem'):
        x, y = _z(a[0], bits), _z(a[1], bits)
        return {'and': lambda: x & y, 'or': lambda: x | y, 'xor': lambda: x ^ y, 'add': lambda: x + y,
                'sub': lambda: x - y, 'mul': lambda: x * y, 'shl': lambda: x << y, 'lshr': lambda: z3.LShR(x, y),
                'ashr': lambda: x >> y, 'udiv': lambda: z3.UDiv(x, y), 'urem': lambda: z3.URem(x, y),
                'sdiv': lambda: x / y, 'srem': lambda: z3.SRem(x, y)}[op]()
    if op.startswith('cmp:'):
        p = op[4:]
        w = a[0].bits if not is_c(a[0]) else a[1].bits
        x, y = _z(a[0], w), _z(a[1], w)
        r = {'eq': lambda: x == y, 'ugt': lambda: z3.UGT(x, y), 'uge': lambda: z3.UGE(x, y),
             'ult': lambda: z3.ULT(x, y), 'ule': lambda: z3.ULE(x, y), 'sgt': lambda: x > y, 'sge': lambda: x >= y,
             'slt': lambda: x < y, 'sle': lambda: x <= y}[p]()
        return z3.If(r, z3.BitVecVal(1, 1), z3.BitVecVal(0, 1))
    if op == 'zext':
        return z3.ZeroExt(bits - a[0].bits, a[0].z)
    if op == 'sext':
        return z3.SignExt(bits - a[0].bits, a[0].z)
    if op == 'extract':
        return z3.Extract(a[1], a[2], a[0].z)
    if op == 'concat':
        return z3.Concat(_z(a[0], a[2]), _z(a[1], a[3]))
    raise ValueError(op)


def guard_z3(g):
    if g is True or g == 1:
        return z3.BoolVal(True)
    if g is False or g == 0:
        return z3.BoolVal(False)
    return to_z3(g) == 1


def leaves(x, limit=64):
    """(guard, int) leaves of a const-leaf tree"""
    if is_c(x):
        return [(1, x)]
    if not x.cl:
        return None
    return [(g, v) for v, g in x.args]


# ------------------------------------------------------------------ concrete evaluation / small-domain expansion
def support(x, limit=4):
    """set of var nodes under x (None if more than `limit`)"""
    seen = set()
    vs = []
    stack = [x]
    while stack:
        e = stack.pop()
        if is_c(e) or e.id in seen:
            continue
        seen.add(e.id)
        if e.op.startswith('var:'):
            vs.append(e)
            if len(vs) > limit:
                return None
            continue
        if len(seen) > 20000:
            return None
        for a in (e.args if e.op != 'cl' else [g for _, g in e.args]):
            if isinstance(a, E):
                stack.append(a)
    return vs


def evalc(x, env):
    """evaluate x with var node id -> int; iterative post-order with memo"""
    if is_c(x):
        return x
    memo = {}
    stack = [x]
    while stack:
        e = stack[-1]
        if e.id in memo:
            stack.pop()
            continue
        if e.op == 'cl':
            pend = [g for _, g in e.args if isinstance(g, E) and g.id not in memo]
        else:
            pend = [a for a in e.args if isinstance(a, E) and a.id not in memo]
        if pend:
            stack.extend(pend)
            continue
        stack.pop()
        op, bits = e.op, e.bits
        if op == 'cl':
            v = e.args[-1][0]
            for val, g in e.args:
                if (memo[g.id] if isinstance(g, E) else g) & 1:
                    v = val
                    break
            memo[e.id] = v
            continue
        a = [memo[t.id] if isinstance(t, E) else t for t in e.args]
        if op.startswith('var:'):
            v = env[e.id]
        elif op == 'ite':
            v = a[1] if a[0] & 1 else a[2]
        elif op == 'not':
            v = (~a[0]) & 1
        elif op in ('and', 'or', 'xor'):
            v = a[0] & a[1] if op == 'and' else (a[0] | a[1] if op == 'or' else a[0] ^ a[1])
        elif op.startswith('cmp:'):
            w = e.args[0].bits if isinstance(e.args[0], E) else e.args[1].bits
            v = _cmpc(op[4:], a[0], a[1], w)
        elif op == 'zext':
            v = a[0]
        elif op == 'sext':
            v = sxt(a[0], e.args[0].bits) & mask(bits)
        elif op == 'extract':
            v = (a[0] >> a[2]) & mask(a[1] - a[2] + 1)
        elif op == 'concat':
            v = (a[0] << a[3]) | a[1]
        else:
            v = _binc(op, a[0], a[1], bits)
        memo[e.id] = v
    return memo[x.id]


def expand_small(x, bits, maxvals=16):
    """if x depends on at most 8 bits of input, rewrite it as a constant-leaf ite tree; else None"""
    if is_c(x) or x.cl:
        return x
    if x.id in _EXP:
        return _EXP[x.id]
    _EXP[x.id] = None
    r = _expand_small(x, bits, maxvals)
    _EXP[x.id] = r
    return r


_EXP = {}


def _expand_small(x, bits, maxvals):
    vs = support(x, 2)
    if not vs or sum(v.bits for v in vs) > 8:
        return None
    groups = {}
    import itertools as _it
    doms = [range(1 << v.bits) for v in vs]
    for combo in _it.product(*doms):
        r = evalc(x, {v.id: c for v, c in zip(vs, combo)})
        groups.setdefault(r, []).append(combo)
        if len(groups) > maxvals:
            return None
    items = sorted(groups.items(), key=lambda kv: len(kv[1]))
    pairs = []
    others = 0
    for r, combos in items[:-1]:
        g = 0
        for combo in combos:
            c = 1
            for v, val in zip(vs, combo):
                c = and_(c, cmp_('eq', v, val, v.bits), 1)
            g = or_(g, c, 1)
        pairs.append((r, g))
        others = or_(others, g, 1)
    pairs.append((items[-1][0], not_(others)))  # the largest group is the default
    return mkcl(pairs, bits)


# ------------------------------------------------------------------ value-set analysis (sound over-approximation)
_VS = {}
VS_LIMIT = 32
HINTS = {}


def _submasks(m):
    out = []
    x = m
    while True:
        out.append(x)
        if x == 0:
            break
        x = (x - 1) & m
    return out


def valset(x):
    """frozenset of all values x may take (over-approximation) or None if more than VS_LIMIT"""
    if is_c(x):
        return frozenset((x,))
    r = _VS.get(x.id, 0)
    if r != 0:
        return r
    stack = [x]
    while stack:
        e = stack[-1]
        if e.id in _VS:
            stack.pop()
            continue
        if e.op == 'cl':
            _VS[e.id] = frozenset(v for v, _ in e.args) if len(e.args) <= VS_LIMIT else None
            stack.pop()
            continue
        pend = [a for a in e.args if isinstance(a, E) and a.id not in _VS]
        if pend:
            stack.extend(pend)
            continue
        stack.pop()
        _VS[e.id] = _vs1(e)
    return _VS[x.id]


def _vs1(e):
    op, bits = e.op, e.bits
    full = frozenset(range(1 << bits)) if (1 << bits) <= VS_LIMIT else None
    if op.startswith('var:'):
        if full is None and e.id in HINTS:
            return frozenset(range(HINTS[e.id] + 1))
        return full
    if bits == 1:
        return frozenset((0, 1))
    A = [(_VS[a.id] if isinstance(a, E) else frozenset((a,))) for a in e.args]
    if op == 'ite':
        c = e.args[0]
        # range refinement for the pattern  ite(x > k, d, x)  /  ite(x < k, x, d)  (bounded readers)
        neg = False
        if isinstance(c, E) and c.op == 'not':
            c = c.args[0]
            neg = True
        if isinstance(c, E) and c.op.startswith('cmp:u') and is_c(c.args[1]) and isinstance(c.args[0], E):
            v, k, pr = c.args[0], c.args[1], c.op[4:]
            # set of v-values on the true / false side
            if pr in ('ugt', 'uge'):
                lo = k + 1 if pr == 'ugt' else k
                tside, fside = None, (frozenset(range(lo)) if lo <= VS_LIMIT else None)
            else:
                hi = k if pr == 'ult' else k + 1
                tside, fside = (frozenset(range(hi)) if hi <= VS_LIMIT else None), None
            if neg:
                tside, fside = fside, tside
            if e.args[1] is v and tside is not None:
                A[1] = tside
            if e.args[2] is v and fside is not None:
                A[2] = fside
        if A[1] is None or A[2] is None:
            return full
        u = A[1] | A[2]
        return u if len(u) <= VS_LIMIT else full
    if op == 'zext':
        return A[0] if A[0] is not None else full
    if op == 'sext':
        if A[0] is None:
            return full
        b1 = e.args[0].bits
        return frozenset(sxt(v, b1) & mask(bits) for v in A[0])
    if op == 'extract':
        hi, lo = e.args[1], e.args[2]
        if A[0] is None:
            return full
        return frozenset((v >> lo) & mask(hi - lo + 1) for v in A[0])
    if op == 'concat':
        if A[0] is None or A[1] is None or len(A[0]) * len(A[1]) > VS_LIMIT:
            return full
        lb = e.args[3]
        return frozenset((h << lb) | l for h in A[0] for l in A[1])
    if op == 'and':
        for i in (0, 1):
            if A[i] is not None and len(A[i]) == 1 and A[1 - i] is None:
                m = next(iter(A[i]))
                if bin(m).count('1') <= 5:
                    return frozenset(_submasks(m))
    if op in ('urem',) and A[1] is not None and len(A[1]) == 1 and A[0] is None:
        k = next(iter(A[1]))
        if 0 < k <= VS_LIMIT:
            return frozenset(range(k))
    if op in ('and', 'or', 'xor', 'add', 'sub', 'mul', 'shl', 'lshr', 'ashr', 'udiv', 'urem', 'sdiv', 'srem'):
        if A[0] is None or A[1] is None or len(A[0]) * len(A[1]) > 4 * VS_LIMIT:
            return full
        if op == 'and':
            r = frozenset(a & b for a in A[0] for b in A[1])
        elif op == 'or':
            r = frozenset(a | b for a in A[0] for b in A[1])
        elif op == 'xor':
            r = frozenset(a ^ b for a in A[0] for b in A[1])
        else:
            r = frozenset(_binc(op, a, b, bits) for a in A[0] for b in A[1])
        return r if len(r) <= VS_LIMIT else full
    return full
