import cProfile, pstats, signal, sys, io
secs = int(sys.argv.pop(1))
import llsym
pr = cProfile.Profile()


def onalarm(sig, frm):
    pr.disable()
    st = io.StringIO()
    pstats.Stats(pr, stream=st).sort_stats('tottime').print_stats(30)
    print(st.getvalue()[:7000])
    import traceback
    traceback.print_stack(frm, limit=30)
    sys.stdout.flush()
    import os
    os._exit(3)


signal.signal(signal.SIGALRM, onalarm)
signal.alarm(secs)
pr.enable()
llsym.main()
