#!/usr/bin/env python3
"""(re)generate /verif/MANIFEST.json from the table below; validates against the schema."""
import json, os, sys
VERIF = os.path.dirname(os.path.dirname(os.path.abspath(__file__)))

TECH = 'bounded symbolic execution of the real code (rustc LLVM IR of /repo/src) + SMT (z3 QF_BV); counterexamples replayed on the real build'
NOTE = ('Trusted: rustc/LLVM IR as compiled, llsym (own symbolic executor), z3, the array/fixed-width models of std collections, Vec, '
        'num and tiny-keccak (each solver model is replayed on the real build; seeded random inputs must agree on both builds). '
        'Universe bounds (actors, counters, members/keys, pending removes, ops) are stated in the evidence file; larger universes, u64 overflow '
        'and other generic instantiations than u8 are outside the claim.')

CLAIMED = {
    'C10': ('Every VClock/Dot operation is compared with the pointwise specification for all clocks over 3 actors and counters 0..2 (thorough: 0..3); '
            'per-actor independence of the code makes this representative. No abstraction: the deciding step is an unsat verdict per harness.', '§6 C10'),
}

NOT_APPLICABLE = {
    'C19': 'serde_json round-trip: byte-stream serialisation code with data-dependent buffers is outside what the IR-level symbolic executor '
           'can encode within reach; see DESIGN.md §7',
}
PENDING = 'harnesses for this property are not built yet in this revision (see DESIGN.md §6 for the plan); not claimed until they are'


def main():
    props = [json.loads(l)['id'] for l in open(os.path.join(VERIF, 'properties.jsonl')) if l.strip()]
    checks = []
    na = []
    for p in props:
        if p in CLAIMED:
            text, ref = CLAIMED[p]
            checks.append({
                'property_id': p,
                'quick_cmd': './check %s --tier quick' % p,
                'thorough_cmd': './check %s --tier thorough' % p,
                'evidence_file': 'evidence/%s.json' % p,
                'replay_cmd_template': './check %s --replay {path}' % p,
                'engine': 'llsym',
                'level_claimed': {'category': 'model_checking', 'text': text, 'design_ref': ref},
                'level_note': NOTE,
                'technique': TECH,
            })
        else:
            na.append({'property_id': p, 'reason': NOT_APPLICABLE.get(p, PENDING)})
    m = {
        'version': 1,
        'setup_cmd': './setup.sh',
        'hooks': {
            'guard': 'none',
            'enable': 'no change to /repo is needed: the std facade header, private-field access shims and harness modules are added to a '
                      'scratch copy of /repo/src under /verif/build on every run (tools/vbuild.py)',
            'baseline_off_cmd': 'cd /repo && cargo test --workspace --no-fail-fast --offline',
            'source_commits': [],
            'add_only': True,
        },
        'engines': [
            {'name': 'llsym', 'path': 'llsym/', 'serves_properties': sorted(CLAIMED),
             'kind_free_text': 'merging symbolic executor for rustc-emitted LLVM IR with a z3 (QF_BV) back end; harnesses in harness/vh/*.rs; '
                               'driver ./check'},
        ],
        'checks': checks,
        'not_applicable': na,
        'notes': 'Exit codes of ./check: 0 held (KNOWN-FINDING lines for listed findings), 1 VIOLATION, 2 inconclusive (never reported as success).',
    }
    json.dump(m, open(os.path.join(VERIF, 'MANIFEST.json'), 'w'), indent=1)
    try:
        import jsonschema
        jsonschema.validate(m, json.load(open('/root/.vp/MANIFEST.schema.json')))
        print('MANIFEST.json valid; %d checks, %d not claimed' % (len(checks), len(na)))
    except ImportError:
        print('MANIFEST.json written (jsonschema not available to validate)')


if __name__ == '__main__':
    main()
