#!/usr/bin/env python3
"""(re)generate /verif/MANIFEST.json from the table below; validates against the schema."""
import json, os, sys
VERIF = os.path.dirname(os.path.dirname(os.path.abspath(__file__)))

TECH = 'bounded symbolic execution of the real code (rustc LLVM IR of /repo/src) + SMT (z3 QF_BV); counterexamples replayed on the real build'
NOTE = ('Trusted: rustc/LLVM IR as compiled, llsym (own symbolic executor), z3, the array/fixed-width models of std collections, Vec, '
        'num and tiny-keccak (each solver model is replayed on the real build; seeded random inputs must agree on both builds). '
        'Universe bounds (actors, counters, members/keys, pending removes, ops) are stated in the evidence file; larger universes, u64 overflow '
        'and other generic instantiations than u8 are outside the claim.')

IND = ('Inductive form: the state of each type is proved equal to a declarative function SPEC(U,K) of the knowledge set K alone by one solver query per '
       'lemma (L_init, L_apply, L_dup, L_merge over every universe U and knowledge K within the bounds), so histories, interleavings, duplicates '
       'and merges of ANY length are covered by induction; bounded in universe size (actors, counters, members/keys, removes), not in history length. ')

CLAIMED = {
    'C01': (IND + 'Types covered: VClock, GCounter, PNCounter, GSet, LWWReg, Max/MinReg (any delivery order), MVReg (any order), GList (two concurrent replicas), Orswot and '
            'Map<_,Orswot> with nested adds (per-actor order, which includes every causal schedule): equal delivered sets give equal SPEC hence equal '
            'reads and contexts. List is covered by bounded 3-op histories only; MerkleReg and Map<_,MVReg> are not covered by this check (stated in DESIGN.md).', '§6 C01'),
    'C02': (IND + 'merge(SPEC(K1),SPEC(K2)) == SPEC(K1 u K2) makes merge a function of the knowledge union, hence commutative, associative and '
            'idempotent on all reachable states (pending removes included) for VClock, GCounter, PNCounter, GSet, LWWReg, Max/MinReg, MVReg, Orswot (2 actors; 3 actors in the thorough tier), GList (two replicas). '
            'Map::merge could not be encoded within memory (DESIGN.md §9) and is outside this check.', '§6 C02'),
    'C03': (IND + 'L_merge together with L_apply shows that a merged state reads exactly like the replica that applied the union of the ops, and that '
            'ops and merges can be mixed freely (both produce SPEC of the union) for the counters, registers, GSet, MVReg and Orswot; Map::merge is outside.', '§6 C03'),
    'C04': (IND + 'SPEC_Orswot is the property statement itself (member present iff an applied add is not covered by an applied remove context; the '
            'element context is the surviving witnesses); every read entry point is compared with it on every SPEC state.', '§6 C04'),
    'C05': (IND + 'SPEC_Map<Orswot> is the property statement (key present iff an applied update is not covered by an applied key remove; nested '
            'members survive iff not covered); L_apply for updates and key removes (also overtaking ones), L_dup and all reads are decided by the '
            'solver. Nested values: Orswot with nested adds (inductive), plus two scenario families on Map<_, MVReg> (remove vs concurrent overwrite; '
            'remove after a write that had seen another key) whose deviations are the listed known findings D2; nested Map values, nested removes and '
            'Map::merge are outside this check.', '§6 C05'),
    'C06': (IND + 'SPEC_MVReg = one value per applied write not observed by another applied write; K ranges over ALL subsets of the writes (no '
            'delivery-order assumption), every stored order of the value vector is covered, equal concurrent values are a cover point.', '§6 C06'),
    'C07': ('On every SPEC(U,K) state of top-level Orswot, Map<Orswot> and MVReg each read entry point is compared with the specification (add context '
            '= knowledge clock, element rm context = surviving witnesses, empty iff absent, never above the add context) and the ops built through '
            'derive_add_ctx / derive_rm_ctx are shown to be exactly the universe ops with the next unused dot.', '§6 C07'),
    'C08': (IND + 'The knowledge sets K of the Orswot/Map lemmas are only per-actor ordered (any subset of removes, applied before or after what they '
            'observed), MVReg/counters/registers/GSet use arbitrary subsets; pending removes are part of SPEC and travel through L_merge (Orswot). '
            'Hence any delivery schedule respecting per-actor order yields the state causal delivery yields.', '§6 C08'),
    'C09': (IND + 'L_dup (re-applying any applied op leaves == and reads unchanged, including stale adds of removed elements) and L_merge with '
            'K2 subset of K1 (stale / equal / own past state absorbed) for Orswot, MVReg, counters, registers, GSet; L_dup for Map<Orswot>.', '§6 C09'),
    'C10': ('Every VClock/Dot operation is compared with the pointwise specification for all clocks over 3 actors and counters 0..2 (thorough: 0..3); '
            'per-actor independence of the code makes this representative. No abstraction: the deciding step is an unsat verdict per harness.', '§6 C10'),
    'C11': (IND + 'GCounter/PNCounter read the arithmetic sum of the largest learned totals (u128 model of BigUint), Max/MinReg the extremum, LWWReg '
            'the greatest marker (conflict flag exact), GSet the union; K = arbitrary subsets with duplicates; inc/dec/inc_many/dec_many are '
            'realised at the author.', '§6 C11'),
    'C12': ('Bounded histories through the public API (not inductive): two ops by two symbolic actors (same or different; concurrent or causally '
            'ordered; insert at a symbolic index or delete), each produced by the real insert_index / delete_index on the author replica, are '
            'delivered in both causal orders with a duplicate, then a third insert/delete at a symbolic index by any actor is applied on the '
            'converged replica and re-delivered to a lagging one: replicas with the same delivered ops are ==, every element appears once, common '
            'elements keep one relative order on all replicas, re-delivered old ops (also the insert of a deleted element) change nothing. A '
            'second scenario harness: two actors delete the same element concurrently and one keeps editing; every delivery order converges and '
            'keeps the later edit. Longer histories are outside the claim.', '§6 C12'),
    'C13': ('List: insert_index lands at the clamped index and delete_index removes the i-th element (Vec model) on the author replica and on a '
            'converged replica holding concurrent siblings (h_list_hist3 slices 0 and 3). GList: on the state obtained by merging two replicas that inserted concurrently (symbolic indices, distinct symbolic elements, '
            'concurrent siblings with equal rationals included) insert(i,x), insert_after(id,x) and insert_before(id,x) are compared with the Vec '
            'model for every index; merge == op delivery, duplicates and stale states absorbed; Identifier::between is strictly between for all '
            'identifier pairs of depth <= 2. States with more than two concurrent elements are outside the claim.', '§6 C13'),
    'C14': ('Identifier::cmp is compared with a reference lexicographic order with the prefix rule on all triples of identifiers of depth <= 2 over '
            'dyadic rationals in {-2,-1.5,..,2} and markers 0..3 (equal-rational siblings and prefix pairs are cover points): total, antisymmetric, '
            'transitive, consistent with ==; between(lo,hi,m) is strictly inside for every marker and either argument order, one-sided strictly '
            'beyond. Deeper paths and non-dyadic rationals are outside the claim.', '§6 C14'),
    'C16': ('validate_op is evaluated on every SPEC(U,K) state against every universe op: Ok for the next op of an actor and for re-deliveries, the '
            'ordering error exactly for a gap (VClock, Orswot), conflict exactly for a reused marker (LWWReg), always Ok for MVReg/counters; for Map the '
            'false rejection of an in-order update (D3) is a listed known finding, any other deviation is a violation. List: three ops of one '
            'actor (inserts and a delete) validated at replicas that have applied none / one / two of them, plus every op of the bounded List '
            'histories in causal order. MerkleReg is outside.', '§6 C16'),
    'C17': ('validate_merge on all pairs SPEC(U,K1), SPEC(U,K2) (correct use) and on pairs from two independent universes sharing actor ids (misuse): '
            'same verdict both ways, error iff some dot currently witnesses different members; the add_all false positive (D4) is a listed known finding. '
            'Orswot, LWWReg and Map<Orswot> (correct use accepted both ways; a dot that witnesses different keys is flagged both ways).', '§6 C17'),
    'C18': ('reset_remove(c) with an arbitrary clock c (below, above, concurrent) on every SPEC state of VClock, MVReg and Orswot is compared with '
            'the dot-subtraction specification; empty-clock no-op, own-clock empties, c1 then c2 = join, idempotence. GCounter / PNCounter and '
            'Map<Orswot> (entry clocks, nested sets, pending removes; 10 output slices) are compared with the same specification.', '§6 C18'),
    'C20': (IND + 'Every lemma compares with == (the PartialEq of the crate) against SPEC(U,K), which holds exactly the clock, the surviving elements with '
            'their witnesses and the still-pending removes: equal knowledge gives == states and a fully delivered remove leaves no residue (Orswot, '
            'MVReg, Map<Orswot> op path, counters, registers, List/GList histories). For Map<_, MVReg> the order-dependent hidden value clock (D2) is '
            'a listed known finding reproduced by the solver on every run.', '§6 C20'),
}

NOT_APPLICABLE = {
    'C15': 'MerkleReg harnesses exist (harness/vh/c15_merkle.rs) but maps keyed by 32-byte hashes blow the encoder up (> 11 M expression nodes '
           'before the first query, DESIGN.md §9); not claimed',
    'C19': 'serde_json round-trip: byte-stream serialisation code with data-dependent buffers is outside what the IR-level symbolic executor '
           'can encode within reach; see DESIGN.md §7',
}
PENDING = 'harnesses for this property are not built yet in this revision (see DESIGN.md §6 for the plan); not claimed until they are'


def main():
    props = [json.loads(l)['id'] for l in open(os.path.join(VERIF, 'properties.jsonl')) if l.strip()]
    checks = []
    na = []
    for p in props:
        if p in CLAIMED:
            text, ref = CLAIMED[p]
            checks.append({
                'property_id': p,
                'quick_cmd': './check %s --tier quick' % p,
                'thorough_cmd': './check %s --tier thorough' % p,
                'evidence_file': 'evidence/%s.json' % p,
                'replay_cmd_template': './check %s --replay {path}' % p,
                'engine': 'llsym',
                'level_claimed': {'category': 'model_checking', 'text': text, 'design_ref': ref},
                'level_note': NOTE,
                'technique': TECH,
            })
        else:
            na.append({'property_id': p, 'reason': NOT_APPLICABLE.get(p, PENDING)})
    m = {
        'version': 1,
        'setup_cmd': './setup.sh',
        'hooks': {
            'guard': 'none',
            'enable': 'no change to /repo is needed: the std facade header, private-field access shims and harness modules are added to a '
                      'scratch copy of /repo/src under /verif/build on every run (tools/vbuild.py)',
            'baseline_off_cmd': 'cd /repo && cargo nextest run --workspace --no-fail-fast --tool-config-file pb:/w/lib/nextest.toml --profile pb '
                                '--test-threads 8 --offline   # the pinned command of /root/.vp/BASELINE.json; /repo is not modified at all '
                                '(fallback: cargo test --workspace --no-fail-fast --offline -- --skip prop_op_reordering_converges)',
            'source_commits': [],
            'add_only': True,
        },
        'engines': [
            {'name': 'llsym', 'path': 'llsym/', 'serves_properties': sorted(CLAIMED),
             'kind_free_text': 'merging symbolic executor for rustc-emitted LLVM IR with a z3 (QF_BV) back end; harnesses in harness/vh/*.rs; '
                               'driver ./check'},
        ],
        'checks': checks,
        'not_applicable': na,
        'notes': 'Exit codes of ./check: 0 held (KNOWN-FINDING lines for listed findings), 1 VIOLATION, 2 inconclusive (never reported as success).',
    }
    json.dump(m, open(os.path.join(VERIF, 'MANIFEST.json'), 'w'), indent=1)
    try:
        import jsonschema
        jsonschema.validate(m, json.load(open('/root/.vp/MANIFEST.schema.json')))
        print('MANIFEST.json valid; %d checks, %d not claimed' % (len(checks), len(na)))
    except ImportError:
        print('MANIFEST.json written (jsonschema not available to validate)')


if __name__ == '__main__':
    main()
