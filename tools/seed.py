#!/usr/bin/env python3
"""Seeded-change bookkeeping.
  seed.py verify <PROP> <N>      confirm /tmp/out_<PROP>/<N> in the scratch worktree /tmp/wt_<PROP> (compiles, suite passes,
                                 demo fails with / passes without) and store it as /verif/seeded/<PROP>-<N>/
  seed.py run <seed-id> [props]  apply the patch to /repo, run ./check for the given (default: listed) properties, undo
"""
import json, os, subprocess, sys, shutil, time

VERIF = os.path.dirname(os.path.dirname(os.path.abspath(__file__)))
SUITE = ['cargo', 'test', '--offline', '--no-fail-fast', '--lib', '--test', 'test', '--', '--skip', 'prop_op_reordering_converges']
DOCS = ['cargo', 'test', '--offline', '--doc']


def sh(cmd, cwd, timeout=3600):
    p = subprocess.run(cmd, cwd=cwd, stdout=subprocess.PIPE, stderr=subprocess.STDOUT, text=True, timeout=timeout,
                       env=dict(os.environ, CARGO_NET_OFFLINE='true'))
    return p.returncode, p.stdout


def verify(prop, n):
    wt = '/tmp/wt_%s' % prop
    out = '/tmp/out_%s/%s' % (prop, n)
    patch = os.path.join(out, 'patch.diff')
    ran = []
    sh(['git', 'checkout', '--', 'src'], wt)
    rc, o = sh(['git', 'apply', '--check', patch], wt)
    assert rc == 0, 'patch does not apply: ' + o
    # demo passes without the change
    rc0, o0 = sh(['cargo', 'test', '--offline', '--test', 'verif_demo_%s' % n], wt)
    ran.append(('unchanged: cargo test --test verif_demo_%s' % n, rc0))
    sh(['git', 'apply', patch], wt)
    rc1, o1 = sh(SUITE, wt)
    rcd, od = sh(DOCS, wt)
    tail = [l for l in (o1 + od).split('\n') if l.startswith('test result')]
    ran.append(('changed: ' + ' '.join(SUITE), rc1, tail))
    ran.append(('changed: ' + ' '.join(DOCS), rcd))
    rc1 = rc1 or rcd
    rc2, o2 = sh(['cargo', 'test', '--offline', '--test', 'verif_demo_%s' % n], wt)
    ran.append(('changed: cargo test --test verif_demo_%s' % n, rc2))
    sh(['git', 'checkout', '--', 'src'], wt)
    # the suite result must ignore the demo targets themselves
    demo_fail_only = False
    suite_ok = rc1 == 0
    ok = rc0 == 0 and suite_ok and rc2 != 0
    print('%s-%s: demo unchanged rc=%d, suite with change rc=%d (only demo targets fail: %s), demo with change rc=%d -> %s' % (
        prop, n, rc0, rc1, demo_fail_only, rc2, 'CONFIRMED' if ok else 'REJECTED'))
    for l in tail:
        print('   ', l)
    if not ok:
        return 1
    dst = os.path.join(VERIF, 'seeded', '%s-%s' % (prop, n))
    os.makedirs(dst, exist_ok=True)
    shutil.copy(patch, os.path.join(dst, 'patch.diff'))
    shutil.copy(os.path.join(out, 'demo.rs'), os.path.join(dst, 'demo.rs'))
    notes = open(os.path.join(out, 'notes.md')).read() if os.path.exists(os.path.join(out, 'notes.md')) else ''
    open(os.path.join(dst, 'notes.md'), 'w').write(notes)
    meta = {'id': '%s-%s' % (prop, n), 'breaks_property': prop, 'author': 'independent sub-agent given only the property text',
            'needs_to_manifest': notes.split('\n')[0:1], 'files_touched': sorted({l[6:].strip() for l in open(patch) if l.startswith('+++ b/')}),
            'confirmed': [{'cmd': r[0], 'rc': r[1]} for r in ran], 'suite_summary': tail,
            'demo_run': 'add [[test]] name="verif_demo_%s" path="test/verif_demo_%s.rs" to Cargo.toml, copy demo.rs there, cargo test --offline --test verif_demo_%s' % (n, n, n),
            'detected_by': {}}
    json.dump(meta, open(os.path.join(dst, 'meta.json'), 'w'), indent=1)
    return 0


def run(seed, props):
    d = os.path.join(VERIF, 'seeded', seed)
    meta = json.load(open(os.path.join(d, 'meta.json')))
    props = props or [meta['breaks_property']]
    rc, o = sh(['git', 'status', '--porcelain', '--', 'src'], '/repo')
    assert o.strip() == '', '/repo/src is not clean'
    rc, o = sh(['git', 'apply', os.path.join(d, 'patch.diff')], '/repo')
    assert rc == 0, o
    try:
        for p in props:
            t = time.time()
            rc, o = sh([os.path.join(VERIF, 'check'), p, '--no-evidence'], VERIF, timeout=7200)
            lines = [l for l in o.split('\n') if l.startswith(('VIOLATION', 'INCONCLUSIVE', 'OK', 'VIOLATED', 'KNOWN'))]
            verdict = {0: 'missed', 1: 'DETECTED', 2: 'inconclusive'}.get(rc, 'rc=%d' % rc)
            print('%s vs %s: %s (%.0fs)' % (seed, p, verdict, time.time() - t))
            for l in lines[:6]:
                print('    ' + l[:300])
            meta['detected_by'][p] = {'verdict': verdict, 'lines': lines[:4], 'wall_s': round(time.time() - t)}
    finally:
        sh(['git', 'checkout', '--', '.'], '/repo')
    json.dump(meta, open(os.path.join(d, 'meta.json'), 'w'), indent=1)


def table():
    rows = []
    sd = os.path.join(VERIF, 'seeded')
    for d in sorted(os.listdir(sd)):
        mp = os.path.join(sd, d, 'meta.json')
        if not os.path.exists(mp):
            continue
        m = json.load(open(mp))
        det = m.get('detected_by', {})
        cells = ['%s: %s' % (p, v['verdict']) for p, v in sorted(det.items())]
        first = ''
        np_ = os.path.join(sd, d, 'notes.md')
        if os.path.exists(np_):
            for l in open(np_):
                if l.strip() and not l.startswith('#'):
                    first = l.strip()[:160]
                    break
        rows.append('| %s | %s | %s | %s |' % (d, ', '.join(x.strip() for x in m.get('files_touched', [])), '; '.join(cells) or 'not run', first.replace('|', '/')))
    out = ['# Seeded changes', '',
           'Each directory holds a change to rust-crdt written by an independent sub-agent that was given only the text of one property and a',
           'scratch worktree (nothing from /verif). Every change compiles, passes the unedited test suite, and comes with a demonstration test that',
           'fails with the change and passes without it; all of that was re-confirmed by `tools/seed.py verify` before the change was kept.',
           '`detected by` is the outcome of `tools/seed.py run <id> <properties>`: the patch is applied to /repo, `./check <property>` is run, the patch is',
           'undone. DETECTED = exit 1 with a VIOLATION line whose counterexample replays on the real build; missed = exit 0; inconclusive = exit 2.', '',
           '| seed | files | detected by | what it is (first line of the author\'s notes) |', '|---|---|---|---|'] + rows
    open(os.path.join(sd, 'README.md'), 'w').write('\n'.join(out) + '\n')
    print('\n'.join(rows))


if __name__ == '__main__':
    if sys.argv[1] == 'table':
        table()
    elif sys.argv[1] == 'verify':
        sys.exit(verify(sys.argv[2], sys.argv[3]))
    elif sys.argv[1] == 'run':
        run(sys.argv[2], sys.argv[3:])
