//! Model of the parts of the `num` crate that `crdts` uses (model build only; DESIGN.md §3.2).
//!
//! * `BigUint` / `BigInt`: checked `u128` / `i128` (overflow panics = bound exceeded).
//! * `BigRational`: exact dyadic fixed point, `i64` with `FRAC` fractional bits. Every rational
//!   that `Identifier::between` produces through the API is dyadic; an operation whose exact
//!   result is not representable panics ("vnum: ..." = bound exceeded), it never rounds.
use core::cmp::Ordering;
use core::ops::{Add, Div, Mul, Neg, Sub};
use serde::{Deserialize, Serialize};

#[cold]
#[inline(never)]
fn out_of_model(what: &'static str) -> ! {
    panic!("vnum model bound exceeded: {}", what)
}

pub trait Zero: Sized {
    fn zero() -> Self;
    fn is_zero(&self) -> bool;
}
pub trait One: Sized {
    fn one() -> Self;
}

// ------------------------------------------------------------------ BigUint
#[derive(Clone, Copy, Debug, Default, PartialEq, Eq, PartialOrd, Ord, Hash, Serialize, Deserialize)]
pub struct BigUint(u128);

impl BigUint {
    #[inline]
    pub fn to_u128(&self) -> u128 {
        self.0
    }
}
impl core::fmt::Display for BigUint {
    #[inline]
    fn fmt(&self, f: &mut core::fmt::Formatter<'_>) -> core::fmt::Result {
        write!(f, "{}", self.0)
    }
}
macro_rules! biguint_from {
    ($($t:ty),*) => {$(
        impl From<$t> for BigUint { fn from(x: $t) -> Self { BigUint(x as u128) } }
    )*};
}
biguint_from!(u8, u16, u32, u64, u128, usize);
impl Zero for BigUint {
    #[inline]
    fn zero() -> Self {
        BigUint(0)
    }
    #[inline]
    fn is_zero(&self) -> bool {
        self.0 == 0
    }
}
impl One for BigUint {
    #[inline]
    fn one() -> Self {
        BigUint(1)
    }
}
impl Add for BigUint {
    type Output = BigUint;
    #[inline]
    fn add(self, o: BigUint) -> BigUint {
        match self.0.checked_add(o.0) {
            Some(v) => BigUint(v),
            None => out_of_model("BigUint add"),
        }
    }
}
impl Add<u64> for BigUint {
    type Output = BigUint;
    #[inline]
    fn add(self, o: u64) -> BigUint {
        self + BigUint::from(o)
    }
}
impl Sub for BigUint {
    type Output = BigUint;
    #[inline]
    fn sub(self, o: BigUint) -> BigUint {
        match self.0.checked_sub(o.0) {
            Some(v) => BigUint(v),
            None => panic!("attempt to subtract with overflow (BigUint)"),
        }
    }
}
impl Mul for BigUint {
    type Output = BigUint;
    #[inline]
    fn mul(self, o: BigUint) -> BigUint {
        match self.0.checked_mul(o.0) {
            Some(v) => BigUint(v),
            None => out_of_model("BigUint mul"),
        }
    }
}
impl core::iter::Sum<u64> for BigUint {
    #[inline]
    fn sum<I: Iterator<Item = u64>>(it: I) -> BigUint {
        let mut acc = BigUint(0);
        for x in it {
            acc = acc + x;
        }
        acc
    }
}
impl core::iter::Sum<BigUint> for BigUint {
    #[inline]
    fn sum<I: Iterator<Item = BigUint>>(it: I) -> BigUint {
        let mut acc = BigUint(0);
        for x in it {
            acc = acc + x;
        }
        acc
    }
}

// ------------------------------------------------------------------ BigInt
#[derive(Clone, Copy, Debug, Default, PartialEq, Eq, PartialOrd, Ord, Hash, Serialize, Deserialize)]
pub struct BigInt(i128);

impl BigInt {
    #[inline]
    pub fn to_i128(&self) -> i128 {
        self.0
    }
}
impl core::fmt::Display for BigInt {
    #[inline]
    fn fmt(&self, f: &mut core::fmt::Formatter<'_>) -> core::fmt::Result {
        write!(f, "{}", self.0)
    }
}
macro_rules! bigint_from {
    ($($t:ty),*) => {$(
        impl From<$t> for BigInt { fn from(x: $t) -> Self { BigInt(x as i128) } }
    )*};
}
bigint_from!(u8, u16, u32, u64, usize, i8, i16, i32, i64, i128, isize);
impl From<BigUint> for BigInt {
    #[inline]
    fn from(x: BigUint) -> Self {
        if x.0 > i128::MAX as u128 {
            out_of_model("BigInt from BigUint");
        }
        BigInt(x.0 as i128)
    }
}
impl Zero for BigInt {
    #[inline]
    fn zero() -> Self {
        BigInt(0)
    }
    #[inline]
    fn is_zero(&self) -> bool {
        self.0 == 0
    }
}
impl One for BigInt {
    #[inline]
    fn one() -> Self {
        BigInt(1)
    }
}
impl Add for BigInt {
    type Output = BigInt;
    #[inline]
    fn add(self, o: BigInt) -> BigInt {
        match self.0.checked_add(o.0) {
            Some(v) => BigInt(v),
            None => out_of_model("BigInt add"),
        }
    }
}
impl Sub for BigInt {
    type Output = BigInt;
    #[inline]
    fn sub(self, o: BigInt) -> BigInt {
        match self.0.checked_sub(o.0) {
            Some(v) => BigInt(v),
            None => out_of_model("BigInt sub"),
        }
    }
}
impl Mul for BigInt {
    type Output = BigInt;
    #[inline]
    fn mul(self, o: BigInt) -> BigInt {
        match self.0.checked_mul(o.0) {
            Some(v) => BigInt(v),
            None => out_of_model("BigInt mul"),
        }
    }
}
impl Neg for BigInt {
    type Output = BigInt;
    #[inline]
    fn neg(self) -> BigInt {
        BigInt(-self.0)
    }
}

pub mod bigint {
    pub use super::{BigInt, BigUint};
}

// ------------------------------------------------------------------ BigRational
/// Number of fractional bits of the fixed-point model.
pub const FRAC: u32 = 16;
const ONE: i64 = 1 << FRAC;

#[derive(Clone, Copy, Default, PartialEq, Eq, PartialOrd, Ord, Hash, Serialize, Deserialize)]
pub struct BigRational(i64);

impl BigRational {
    /// model-only constructor: `raw / 2^FRAC`
    #[inline]
    pub fn from_raw(raw: i64) -> Self {
        BigRational(raw)
    }
    #[inline]
    pub fn raw(&self) -> i64 {
        self.0
    }
    #[inline]
    pub fn from_integer(i: BigInt) -> Self {
        if i.0 > (i64::MAX >> FRAC) as i128 || i.0 < (i64::MIN >> FRAC) as i128 {
            out_of_model("BigRational::from_integer range");
        }
        BigRational((i.0 as i64) << FRAC)
    }
    /// `numer / denom`; `denom` must be a power of two not larger than `2^FRAC`.
    #[inline]
    pub fn new(numer: BigInt, denom: BigInt) -> Self {
        if denom.0 == 0 {
            panic!("denominator == 0");
        }
        let mut k = 0u32;
        let mut found = FRAC + 1;
        while k <= FRAC {
            if denom.0 == (1i128 << k) {
                found = k;
            }
            k += 1;
        }
        if found > FRAC {
            out_of_model("BigRational::new with a non power-of-two denominator");
        }
        let n = numer.0;
        if n > (i64::MAX >> FRAC) as i128 || n < (i64::MIN >> FRAC) as i128 {
            out_of_model("BigRational::new range");
        }
        BigRational((n as i64) << (FRAC - found))
    }
    #[inline]
    fn add_(self, o: Self) -> Self {
        match self.0.checked_add(o.0) {
            Some(v) => BigRational(v),
            None => out_of_model("BigRational add"),
        }
    }
    #[inline]
    fn sub_(self, o: Self) -> Self {
        match self.0.checked_sub(o.0) {
            Some(v) => BigRational(v),
            None => out_of_model("BigRational sub"),
        }
    }
    #[inline]
    fn div_(self, o: Self) -> Self {
        if o.0 == 0 {
            panic!("division by zero");
        }
        if o.0 == ONE {
            return self;
        }
        if o.0 == 2 * ONE {
            if self.0 & 1 != 0 {
                out_of_model("BigRational precision (halving an odd fixed-point value)");
            }
            return BigRational(self.0 >> 1);
        }
        out_of_model("BigRational division by something other than 1 or 2")
    }
    #[inline]
    fn mul_(self, o: Self) -> Self {
        let p = (self.0 as i128) * (o.0 as i128);
        if p & ((ONE as i128) - 1) != 0 {
            out_of_model("BigRational precision (mul)");
        }
        let q = p >> FRAC;
        if q > i64::MAX as i128 || q < i64::MIN as i128 {
            out_of_model("BigRational mul range");
        }
        BigRational(q as i64)
    }
}
impl Zero for BigRational {
    #[inline]
    fn zero() -> Self {
        BigRational(0)
    }
    #[inline]
    fn is_zero(&self) -> bool {
        self.0 == 0
    }
}
impl One for BigRational {
    #[inline]
    fn one() -> Self {
        BigRational(ONE)
    }
}
impl core::fmt::Debug for BigRational {
    #[inline]
    fn fmt(&self, f: &mut core::fmt::Formatter<'_>) -> core::fmt::Result {
        write!(f, "{}/{}", self.0, ONE)
    }
}
impl core::fmt::Display for BigRational {
    #[inline]
    fn fmt(&self, f: &mut core::fmt::Formatter<'_>) -> core::fmt::Result {
        write!(f, "{}/{}", self.0, ONE)
    }
}
macro_rules! rat_ops {
    ($tr:ident, $m:ident, $f:ident) => {
        impl $tr<BigRational> for BigRational {
            type Output = BigRational;
            #[inline]
            fn $m(self, o: BigRational) -> BigRational {
                self.$f(o)
            }
        }
        impl<'a> $tr<&'a BigRational> for BigRational {
            type Output = BigRational;
            #[inline]
            fn $m(self, o: &'a BigRational) -> BigRational {
                self.$f(*o)
            }
        }
        impl<'a> $tr<BigRational> for &'a BigRational {
            type Output = BigRational;
            #[inline]
            fn $m(self, o: BigRational) -> BigRational {
                (*self).$f(o)
            }
        }
        impl<'a, 'b> $tr<&'b BigRational> for &'a BigRational {
            type Output = BigRational;
            #[inline]
            fn $m(self, o: &'b BigRational) -> BigRational {
                (*self).$f(*o)
            }
        }
    };
}
rat_ops!(Add, add, add_);
rat_ops!(Sub, sub, sub_);
rat_ops!(Div, div, div_);
rat_ops!(Mul, mul, mul_);
impl Neg for BigRational {
    type Output = BigRational;
    #[inline]
    fn neg(self) -> BigRational {
        BigRational(-self.0)
    }
}
impl BigRational {
    #[inline]
    pub fn cmp_(&self, o: &Self) -> Ordering {
        self.0.cmp(&o.0)
    }
}

pub mod rational {
    pub use super::BigRational;
}
