//! Model of `tiny_keccak::{Sha3, Hasher}` (model build only; DESIGN.md §3.2).
//!
//! Property C15 is stated for nodes with distinct hashes; SHA-3 itself is out of scope. The model is a
//! structural tag: a digest carries the node's own payload bytes and a shifted XOR-fold of its
//! children's digests, so that it depends on the value and on every child, and is injective on the
//! bounded node universes the harnesses build (node values are distinct one-hot bytes).
pub trait Hasher {
    fn update(&mut self, input: &[u8]);
    fn finalize(self, output: &mut [u8]);
}

#[derive(Clone)]
pub struct Sha3 {
    acc: [u8; 8],
    n: u8,
}

impl Sha3 {
    #[inline]
    pub fn v256() -> Sha3 {
        Sha3 { acc: [0; 8], n: 0 }
    }
    #[inline]
    pub fn v224() -> Sha3 {
        Self::v256()
    }
    #[inline]
    pub fn v384() -> Sha3 {
        Self::v256()
    }
    #[inline]
    pub fn v512() -> Sha3 {
        Self::v256()
    }
}

impl Hasher for Sha3 {
    #[inline]
    fn update(&mut self, input: &[u8]) {
        if input.len() == 32 {
            // a child digest: fold its first bytes one position further down
            let mut i = 0;
            while i + 1 < 8 {
                self.acc[i + 1] ^= input[i];
                i += 1;
            }
            self.n = self.n.wrapping_add(1);
        } else {
            // payload bytes
            let mut i = 0;
            while i < input.len() {
                let k = i & 1;
                self.acc[0] = self.acc[0].rotate_left(k as u32) ^ input[i];
                i += 1;
            }
        }
    }
    #[inline]
    fn finalize(self, output: &mut [u8]) {
        let mut i = 0;
        while i < output.len() {
            output[i] = if i < 8 { self.acc[i] } else if i == 8 { self.n } else { 0 };
            i += 1;
        }
    }
}
