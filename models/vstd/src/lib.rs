//! std facade whose `collections` and `Vec` are fixed-capacity array-backed models.
//! Used only by the *model build* of the verification machinery (see /verif/DESIGN.md §3.2).
#![allow(clippy::all)]
#![allow(incomplete_features)]
#![feature(specialization)]
pub use std::*;

pub mod vec {
    pub use crate::model::mvec::{IntoIter, Vec};
}

pub mod prelude {
    pub use std::prelude::*;
    pub mod rust_2021 {
        pub use crate::model::mvec::Vec;
        pub use std::prelude::rust_2021::*;
    }
    pub mod v1 {
        pub use crate::model::mvec::Vec;
        pub use std::prelude::v1::*;
    }
}

#[macro_export]
macro_rules! vec {
    () => { $crate::vec::Vec::new() };
    ($elem:expr; $n:expr) => { $crate::vec::Vec::from_elem($elem, $n) };
    ($($x:expr),+ $(,)?) => {{
        let mut v = $crate::vec::Vec::new();
        $( v.push($x); )+
        v
    }};
}

pub mod collections {
    pub use std::collections::*;
    pub use crate::model::{BTreeMap, BTreeSet, HashMap, HashSet};
    pub mod btree_map {
        pub use crate::model::bmap::{Entry, IntoIter, IntoValues, Iter, Keys, Values};
    }
    pub mod btree_set {
        pub use crate::model::bset::{IntoIter, Iter};
    }
    pub mod hash_map {
        pub use crate::model::hmap::{Entry, IntoIter, Iter};
    }
}

pub mod model {
    const fn parse_cap(s: Option<&str>) -> usize {
        match s {
            None => 3,
            Some(s) => {
                let b = s.as_bytes();
                let mut i = 0;
                let mut n = 0usize;
                while i < b.len() {
                    n = n * 10 + (b[i] - b'0') as usize;
                    i += 1;
                }
                n
            }
        }
    }
    /// Capacity of every model container (build-time bound, `VSTD_CAP`, default 3).
    pub const CAP: usize = parse_cap(option_env!("VSTD_CAP"));
    /// Keys with a tiny integer domain are stored *direct-mapped* (slot index = key value): no search
    /// loops, no shifting, iteration in slot order is key order. Everything else uses the searched /
    /// sorted-prefix representation.
    pub trait ModelKey {
        const DIRECT: bool;
        fn midx(&self) -> usize;
    }
    impl<T: ?Sized> ModelKey for T {
        default const DIRECT: bool = false;
        #[inline(always)]
        default fn midx(&self) -> usize {
            0
        }
    }
    impl ModelKey for u8 {
        const DIRECT: bool = true;
        #[inline(always)]
        fn midx(&self) -> usize {
            *self as usize
        }
    }
    #[cold]
    #[inline(never)]
    pub fn cap_exceeded() -> ! {
        panic!("vstd model capacity exceeded")
    }
    pub use bmap::BTreeMap;
    pub use bset::BTreeSet;
    pub use hmap::HashMap;
    pub use hset::HashSet;


    /// Fixed-capacity vector; elements live inline, `Deref<Target = [T]>`.
    pub mod mvec {
        use super::CAP;
        use core::mem::MaybeUninit;
        use core::ops::{Deref, DerefMut};

        pub struct Vec<T> {
            len: usize,
            buf: [MaybeUninit<T>; CAP],
        }

        impl<T> Vec<T> {
            pub const fn new() -> Self {
                Vec { len: 0, buf: [const { MaybeUninit::uninit() }; CAP] }
            }
            pub fn with_capacity(_n: usize) -> Self {
                Self::new()
            }
            pub fn from_elem(elem: T, n: usize) -> Self
            where
                T: Clone,
            {
                let mut v = Self::new();
                let mut i = 0;
                while i < n {
                    v.push(elem.clone());
                    i += 1;
                }
                v
            }
            pub fn len(&self) -> usize {
                self.len
            }
            pub fn is_empty(&self) -> bool {
                self.len == 0
            }
            pub fn capacity(&self) -> usize {
                CAP
            }
            pub fn reserve(&mut self, _n: usize) {}
            pub fn shrink_to_fit(&mut self) {}
            pub fn as_slice(&self) -> &[T] {
                self
            }
            pub fn as_mut_slice(&mut self) -> &mut [T] {
                self
            }
            pub fn push(&mut self, t: T) {
                if self.len >= CAP {
                    super::cap_exceeded();
                }
                self.buf[self.len] = MaybeUninit::new(t);
                self.len += 1;
            }
            pub fn pop(&mut self) -> Option<T> {
                if self.len == 0 {
                    None
                } else {
                    self.len -= 1;
                    Some(unsafe { self.buf[self.len].assume_init_read() })
                }
            }
            pub fn clear(&mut self) {
                while self.pop().is_some() {}
            }
            pub fn truncate(&mut self, n: usize) {
                while self.len > n {
                    self.pop();
                }
            }
            pub fn insert(&mut self, idx: usize, t: T) {
                if idx > self.len {
                    panic!("insertion index out of bounds");
                }
                if self.len >= CAP {
                    super::cap_exceeded();
                }
                let mut i = self.len;
                while i > idx {
                    self.buf[i] = MaybeUninit::new(unsafe { self.buf[i - 1].assume_init_read() });
                    i -= 1;
                }
                self.buf[idx] = MaybeUninit::new(t);
                self.len += 1;
            }
            pub fn remove(&mut self, idx: usize) -> T {
                if idx >= self.len {
                    panic!("removal index out of bounds");
                }
                let r = unsafe { self.buf[idx].assume_init_read() };
                let mut i = idx;
                while i + 1 < self.len {
                    self.buf[i] = MaybeUninit::new(unsafe { self.buf[i + 1].assume_init_read() });
                    i += 1;
                }
                self.len -= 1;
                r
            }
            pub fn swap_remove(&mut self, idx: usize) -> T {
                if idx >= self.len {
                    panic!("swap_remove index out of bounds");
                }
                let last = self.len - 1;
                self.swap(idx, last);
                self.pop().unwrap()
            }
            pub fn retain<F: FnMut(&T) -> bool>(&mut self, mut f: F) {
                let old = core::mem::take(self);
                for t in old {
                    if f(&t) {
                        self.push(t);
                    }
                }
            }
            pub fn retain_mut<F: FnMut(&mut T) -> bool>(&mut self, mut f: F) {
                let old = core::mem::take(self);
                for mut t in old {
                    if f(&mut t) {
                        self.push(t);
                    }
                }
            }
            pub fn append(&mut self, other: &mut Self) {
                let o = core::mem::take(other);
                for t in o {
                    self.push(t);
                }
            }
            pub fn extend_from_slice(&mut self, s: &[T])
            where
                T: Clone,
            {
                for t in s {
                    self.push(t.clone());
                }
            }
            pub fn dedup(&mut self)
            where
                T: PartialEq,
            {
                let old = core::mem::take(self);
                for t in old {
                    let dup = match self.last() {
                        Some(l) => *l == t,
                        None => false,
                    };
                    if !dup {
                        self.push(t);
                    }
                }
            }
            pub fn drain_all(&mut self) -> IntoIter<T> {
                core::mem::take(self).into_iter()
            }
        }

        impl<T> Drop for Vec<T> {
            fn drop(&mut self) {
                if core::mem::needs_drop::<T>() {
                    while self.pop().is_some() {}
                }
            }
        }
        impl<T> Default for Vec<T> {
            fn default() -> Self {
                Self::new()
            }
        }
        impl<T> Deref for Vec<T> {
            type Target = [T];
            fn deref(&self) -> &[T] {
                unsafe { core::slice::from_raw_parts(self.buf.as_ptr() as *const T, self.len) }
            }
        }
        impl<T> DerefMut for Vec<T> {
            fn deref_mut(&mut self) -> &mut [T] {
                unsafe { core::slice::from_raw_parts_mut(self.buf.as_mut_ptr() as *mut T, self.len) }
            }
        }
        impl<T> AsRef<[T]> for Vec<T> {
            fn as_ref(&self) -> &[T] {
                self
            }
        }
        impl<T> core::borrow::Borrow<[T]> for Vec<T> {
            fn borrow(&self) -> &[T] {
                self
            }
        }
        impl<T: Clone> Clone for Vec<T> {
            fn clone(&self) -> Self {
                let mut v = Vec::new();
                for t in self.iter() {
                    v.push(t.clone());
                }
                v
            }
        }
        impl<T: core::fmt::Debug> core::fmt::Debug for Vec<T> {
            fn fmt(&self, f: &mut core::fmt::Formatter<'_>) -> core::fmt::Result {
                f.debug_list().entries(self.iter()).finish()
            }
        }
        impl<T: PartialEq<U>, U> PartialEq<Vec<U>> for Vec<T> {
            fn eq(&self, o: &Vec<U>) -> bool {
                self[..] == o[..]
            }
        }
        impl<T: PartialEq<U>, U> PartialEq<[U]> for Vec<T> {
            fn eq(&self, o: &[U]) -> bool {
                self[..] == *o
            }
        }
        impl<T: PartialEq<U>, U> PartialEq<&[U]> for Vec<T> {
            fn eq(&self, o: &&[U]) -> bool {
                self[..] == **o
            }
        }
        impl<T: PartialEq<U>, U, const N: usize> PartialEq<[U; N]> for Vec<T> {
            fn eq(&self, o: &[U; N]) -> bool {
                self[..] == o[..]
            }
        }
        impl<T: Eq> Eq for Vec<T> {}
        impl<T: PartialOrd> PartialOrd for Vec<T> {
            fn partial_cmp(&self, o: &Self) -> Option<core::cmp::Ordering> {
                self[..].partial_cmp(&o[..])
            }
        }
        impl<T: Ord> Ord for Vec<T> {
            fn cmp(&self, o: &Self) -> core::cmp::Ordering {
                self[..].cmp(&o[..])
            }
        }
        impl<T: core::hash::Hash> core::hash::Hash for Vec<T> {
            fn hash<H: core::hash::Hasher>(&self, h: &mut H) {
                self[..].hash(h)
            }
        }
        impl<T, I: core::slice::SliceIndex<[T]>> core::ops::Index<I> for Vec<T> {
            type Output = I::Output;
            fn index(&self, i: I) -> &I::Output {
                &(**self)[i]
            }
        }
        impl<T, I: core::slice::SliceIndex<[T]>> core::ops::IndexMut<I> for Vec<T> {
            fn index_mut(&mut self, i: I) -> &mut I::Output {
                &mut (**self)[i]
            }
        }

        pub struct IntoIter<T> {
            v: core::mem::ManuallyDrop<Vec<T>>,
            lo: usize,
            hi: usize,
        }
        impl<T> Iterator for IntoIter<T> {
            type Item = T;
            fn next(&mut self) -> Option<T> {
                if self.lo < self.hi {
                    let r = unsafe { self.v.buf[self.lo].assume_init_read() };
                    self.lo += 1;
                    Some(r)
                } else {
                    None
                }
            }
            fn size_hint(&self) -> (usize, Option<usize>) {
                (self.hi - self.lo, Some(self.hi - self.lo))
            }
        }
        impl<T> DoubleEndedIterator for IntoIter<T> {
            fn next_back(&mut self) -> Option<T> {
                if self.lo < self.hi {
                    self.hi -= 1;
                    Some(unsafe { self.v.buf[self.hi].assume_init_read() })
                } else {
                    None
                }
            }
        }
        impl<T> ExactSizeIterator for IntoIter<T> {}
        impl<T> Drop for IntoIter<T> {
            fn drop(&mut self) {
                if core::mem::needs_drop::<T>() {
                    while self.next().is_some() {}
                }
            }
        }
        impl<T> IntoIterator for Vec<T> {
            type Item = T;
            type IntoIter = IntoIter<T>;
            fn into_iter(self) -> IntoIter<T> {
                let hi = self.len;
                IntoIter { v: core::mem::ManuallyDrop::new(self), lo: 0, hi }
            }
        }
        impl<'a, T> IntoIterator for &'a Vec<T> {
            type Item = &'a T;
            type IntoIter = core::slice::Iter<'a, T>;
            fn into_iter(self) -> core::slice::Iter<'a, T> {
                self.iter()
            }
        }
        impl<'a, T> IntoIterator for &'a mut Vec<T> {
            type Item = &'a mut T;
            type IntoIter = core::slice::IterMut<'a, T>;
            fn into_iter(self) -> core::slice::IterMut<'a, T> {
                self.iter_mut()
            }
        }
        impl<T> FromIterator<T> for Vec<T> {
            fn from_iter<I: IntoIterator<Item = T>>(it: I) -> Self {
                let mut v = Vec::new();
                for t in it {
                    v.push(t);
                }
                v
            }
        }
        impl<T> Extend<T> for Vec<T> {
            fn extend<I: IntoIterator<Item = T>>(&mut self, it: I) {
                for t in it {
                    self.push(t);
                }
            }
        }
        impl<'a, T: Copy + 'a> Extend<&'a T> for Vec<T> {
            fn extend<I: IntoIterator<Item = &'a T>>(&mut self, it: I) {
                for t in it {
                    self.push(*t);
                }
            }
        }
        impl<T: Clone> From<&[T]> for Vec<T> {
            fn from(s: &[T]) -> Self {
                s.iter().cloned().collect()
            }
        }
        impl<T, const N: usize> From<[T; N]> for Vec<T> {
            fn from(s: [T; N]) -> Self {
                s.into_iter().collect()
            }
        }
        impl<T: serde::Serialize> serde::Serialize for Vec<T> {
            fn serialize<S: serde::Serializer>(&self, s: S) -> Result<S::Ok, S::Error> {
                s.collect_seq(self.iter())
            }
        }
        impl<'de, T: serde::Deserialize<'de>> serde::Deserialize<'de> for Vec<T> {
            fn deserialize<D: serde::Deserializer<'de>>(d: D) -> Result<Self, D::Error> {
                let m: std::vec::Vec<T> = serde::Deserialize::deserialize(d)?;
                Ok(m.into_iter().collect())
            }
        }
    }

    /// Sorted array map.
    pub mod bmap {
        use super::{ModelKey, CAP};
        use core::borrow::Borrow;

        #[derive(Clone)]
        pub struct BTreeMap<K, V> {
            pub(crate) len: usize,
            pub(crate) slots: [Option<(K, V)>; CAP],
        }

        impl<K, V> Default for BTreeMap<K, V> {
            fn default() -> Self {
                Self::new()
            }
        }

        impl<K: core::fmt::Debug, V: core::fmt::Debug> core::fmt::Debug for BTreeMap<K, V> {
            fn fmt(&self, f: &mut core::fmt::Formatter<'_>) -> core::fmt::Result {
                f.debug_map().entries(self.iter()).finish()
            }
        }

        impl<K, V> BTreeMap<K, V> {
            pub const fn new() -> Self {
                BTreeMap { len: 0, slots: [const { None }; CAP] }
            }
            pub fn len(&self) -> usize {
                self.len
            }
            pub fn is_empty(&self) -> bool {
                self.len == 0
            }
            pub fn iter(&self) -> Iter<'_, K, V> {
                Iter { m: self, lo: 0, hi: if <K as ModelKey>::DIRECT { CAP } else { self.len } }
            }
            pub fn keys(&self) -> Keys<'_, K, V> {
                Keys(self.iter())
            }
            pub fn values(&self) -> Values<'_, K, V> {
                Values(self.iter())
            }
            pub fn into_values(self) -> IntoValues<K, V> {
                IntoValues(self.into_iter())
            }
            pub fn iter_mut(&mut self) -> impl DoubleEndedIterator<Item = (&K, &mut V)> {
                self.slots.iter_mut().filter_map(|s| s.as_mut().map(|(k, v)| (&*k, v)))
            }
            pub fn values_mut(&mut self) -> impl DoubleEndedIterator<Item = &mut V> {
                self.slots.iter_mut().filter_map(|s| s.as_mut().map(|(_, v)| v))
            }
            pub fn into_keys(self) -> impl DoubleEndedIterator<Item = K> {
                self.into_iter().map(|(k, _)| k)
            }
            pub fn clear(&mut self) {
                *self = Self::new();
            }
        }

        impl<K: Ord, V> BTreeMap<K, V> {
            pub fn get<Q: ?Sized + Ord>(&self, k: &Q) -> Option<&V>
            where
                K: Borrow<Q>,
            {
                if <K as ModelKey>::DIRECT {
                    let i = k.midx();
                    if i < CAP {
                        return match &self.slots[i] {
                            Some((_, v)) => Some(v),
                            None => None,
                        };
                    }
                    return None;
                }
                let mut i = 0;
                while i < CAP {
                    if i < self.len {
                        if let Some((kk, v)) = &self.slots[i] {
                            if kk.borrow() == k {
                                return Some(v);
                            }
                        }
                    }
                    i += 1;
                }
                None
            }
            pub fn get_mut<Q: ?Sized + Ord>(&mut self, k: &Q) -> Option<&mut V>
            where
                K: Borrow<Q>,
            {
                if <K as ModelKey>::DIRECT {
                    let i = k.midx();
                    if i < CAP {
                        return match &mut self.slots[i] {
                            Some((_, v)) => Some(v),
                            None => None,
                        };
                    }
                    return None;
                }
                let len = self.len;
                let mut i = 0;
                for s in self.slots.iter_mut() {
                    if i < len {
                        if let Some((kk, v)) = s {
                            if (*kk).borrow() == k {
                                return Some(v);
                            }
                        }
                    }
                    i += 1;
                }
                None
            }
            pub fn get_key_value<Q: ?Sized + Ord>(&self, k: &Q) -> Option<(&K, &V)>
            where
                K: Borrow<Q>,
            {
                for (kk, v) in self.iter() {
                    if kk.borrow() == k {
                        return Some((kk, v));
                    }
                }
                None
            }
            pub fn contains_key<Q: ?Sized + Ord>(&self, k: &Q) -> bool
            where
                K: Borrow<Q>,
            {
                self.get(k).is_some()
            }
            pub fn insert(&mut self, k: K, v: V) -> Option<V> {
                if <K as ModelKey>::DIRECT {
                    let i = k.midx();
                    if i >= CAP {
                        super::cap_exceeded();
                    }
                    let old = core::mem::replace(&mut self.slots[i], Some((k, v)));
                    return match old {
                        Some((_, ov)) => Some(ov),
                        None => {
                            self.len += 1;
                            None
                        }
                    };
                }
                let mut i = 0;
                while i < CAP {
                    if i < self.len {
                        if let Some((kk, vv)) = &mut self.slots[i] {
                            if *kk == k {
                                return Some(core::mem::replace(vv, v));
                            }
                        }
                    }
                    i += 1;
                }
                self.insert_new(k, v);
                None
            }
            /// Insert a key known to be absent; returns the slot index it landed in.
            fn insert_new(&mut self, k: K, v: V) -> usize {
                if <K as ModelKey>::DIRECT {
                    let i = k.midx();
                    if i >= CAP {
                        super::cap_exceeded();
                    }
                    self.slots[i] = Some((k, v));
                    self.len += 1;
                    return i;
                }
                if self.len >= CAP { super::cap_exceeded(); }
                let mut cur = Some((k, v));
                let mut placed = CAP;
                let mut i = 0;
                while i < CAP {
                    if i < self.len {
                        let gt = match (&self.slots[i], &cur) {
                            (Some((a, _)), Some((b, _))) => a > b,
                            _ => false,
                        };
                        if gt {
                            let t = self.slots[i].take();
                            self.slots[i] = cur.take();
                            cur = t;
                            if placed == CAP {
                                placed = i;
                            }
                        }
                    } else if i == self.len {
                        self.slots[i] = cur.take();
                        if placed == CAP {
                            placed = i;
                        }
                    }
                    i += 1;
                }
                self.len += 1;
                placed
            }
            pub fn remove<Q: ?Sized + Ord>(&mut self, k: &Q) -> Option<V>
            where
                K: Borrow<Q>,
            {
                if <K as ModelKey>::DIRECT {
                    let i = k.midx();
                    if i < CAP {
                        return match self.slots[i].take() {
                            Some((_, v)) => {
                                self.len -= 1;
                                Some(v)
                            }
                            None => None,
                        };
                    }
                    return None;
                }
                let mut found: Option<(K, V)> = None;
                let mut i = 0;
                while i < CAP {
                    if i < self.len {
                        if found.is_none() {
                            let hit = match &self.slots[i] {
                                Some((kk, _)) => kk.borrow() == k,
                                None => false,
                            };
                            if hit {
                                found = self.slots[i].take();
                            }
                        }
                        if found.is_some() {
                            if i + 1 < CAP {
                                self.slots[i] = self.slots[i + 1].take();
                            } else {
                                self.slots[i] = None;
                            }
                        }
                    }
                    i += 1;
                }
                if found.is_some() {
                    self.len -= 1;
                }
                found.map(|(_, v)| v)
            }
            pub fn entry(&mut self, k: K) -> Entry<'_, K, V> {
                Entry { m: self, k }
            }
            pub fn append(&mut self, other: &mut Self) {
                let o = core::mem::take(other);
                for (k, v) in o {
                    self.insert(k, v);
                }
            }
            pub fn retain<F: FnMut(&K, &mut V) -> bool>(&mut self, mut f: F) {
                let old = core::mem::take(self);
                for (k, mut v) in old {
                    if f(&k, &mut v) {
                        self.insert(k, v);
                    }
                }
            }
            pub fn first_key_value(&self) -> Option<(&K, &V)> {
                self.iter().next()
            }
            pub fn last_key_value(&self) -> Option<(&K, &V)> {
                self.iter().next_back()
            }
        }

        pub struct Entry<'a, K, V> {
            m: &'a mut BTreeMap<K, V>,
            k: K,
        }
        impl<'a, K: Ord, V> Entry<'a, K, V> {
            pub fn or_insert_with<F: FnOnce() -> V>(self, f: F) -> &'a mut V {
                if self.m.contains_key(&self.k) {
                    self.m.get_mut(&self.k).unwrap()
                } else {
                    let p = self.m.insert_new(self.k, f());
                    let mut i = 0;
                    for s in self.m.slots.iter_mut() {
                        if i == p {
                            if let Some((_, v)) = s {
                                return v;
                            }
                        }
                        i += 1;
                    }
                    unreachable!()
                }
            }
            pub fn or_insert(self, v: V) -> &'a mut V {
                self.or_insert_with(|| v)
            }
            pub fn and_modify<F: FnOnce(&mut V)>(self, f: F) -> Self {
                if let Some(v) = self.m.get_mut(&self.k) {
                    f(v);
                }
                self
            }
            pub fn key(&self) -> &K {
                &self.k
            }
            pub fn or_default(self) -> &'a mut V
            where
                V: Default,
            {
                self.or_insert_with(V::default)
            }
        }

        impl<K: PartialEq, V: PartialEq> PartialEq for BTreeMap<K, V> {
            fn eq(&self, o: &Self) -> bool {
                if self.len != o.len {
                    return false;
                }
                let mut i = 0;
                while i < CAP {
                    if self.slots[i] != o.slots[i] {
                        return false;
                    }
                    i += 1;
                }
                true
            }
        }
        impl<K: Eq, V: Eq> Eq for BTreeMap<K, V> {}
        impl<K: PartialOrd, V: PartialOrd> PartialOrd for BTreeMap<K, V> {
            fn partial_cmp(&self, o: &Self) -> Option<core::cmp::Ordering> {
                self.iter().partial_cmp(o.iter())
            }
        }
        impl<K: Ord, V: Ord> Ord for BTreeMap<K, V> {
            fn cmp(&self, o: &Self) -> core::cmp::Ordering {
                self.iter().cmp(o.iter())
            }
        }
        impl<K: core::hash::Hash, V: core::hash::Hash> core::hash::Hash for BTreeMap<K, V> {
            fn hash<H: core::hash::Hasher>(&self, h: &mut H) {
                self.len.hash(h);
                for e in self.iter() {
                    e.hash(h);
                }
            }
        }

        pub struct Iter<'a, K, V> {
            m: &'a BTreeMap<K, V>,
            lo: usize,
            hi: usize,
        }
        impl<'a, K, V> Clone for Iter<'a, K, V> {
            fn clone(&self) -> Self {
                Iter { m: self.m, lo: self.lo, hi: self.hi }
            }
        }
        impl<'a, K, V> Iterator for Iter<'a, K, V> {
            type Item = (&'a K, &'a V);
            fn next(&mut self) -> Option<Self::Item> {
                while self.lo < self.hi {
                    let r = self.m.slots[self.lo].as_ref().map(|(k, v)| (k, v));
                    self.lo += 1;
                    if r.is_some() {
                        return r;
                    }
                }
                None
            }
        }
        impl<'a, K, V> DoubleEndedIterator for Iter<'a, K, V> {
            fn next_back(&mut self) -> Option<Self::Item> {
                while self.lo < self.hi {
                    self.hi -= 1;
                    let r = self.m.slots[self.hi].as_ref().map(|(k, v)| (k, v));
                    if r.is_some() {
                        return r;
                    }
                }
                None
            }
        }
        pub struct Keys<'a, K, V>(Iter<'a, K, V>);
        impl<'a, K, V> Iterator for Keys<'a, K, V> {
            type Item = &'a K;
            fn next(&mut self) -> Option<&'a K> {
                self.0.next().map(|(k, _)| k)
            }
        }
        impl<'a, K, V> DoubleEndedIterator for Keys<'a, K, V> {
            fn next_back(&mut self) -> Option<&'a K> {
                self.0.next_back().map(|(k, _)| k)
            }
        }
        pub struct Values<'a, K, V>(Iter<'a, K, V>);
        impl<'a, K, V> Iterator for Values<'a, K, V> {
            type Item = &'a V;
            fn next(&mut self) -> Option<&'a V> {
                self.0.next().map(|(_, v)| v)
            }
        }
        impl<'a, K, V> DoubleEndedIterator for Values<'a, K, V> {
            fn next_back(&mut self) -> Option<&'a V> {
                self.0.next_back().map(|(_, v)| v)
            }
        }
        impl<'a, K, V> IntoIterator for &'a BTreeMap<K, V> {
            type Item = (&'a K, &'a V);
            type IntoIter = Iter<'a, K, V>;
            fn into_iter(self) -> Iter<'a, K, V> {
                self.iter()
            }
        }

        pub struct IntoIter<K, V> {
            m: BTreeMap<K, V>,
            lo: usize,
            hi: usize,
        }
        impl<K, V> Iterator for IntoIter<K, V> {
            type Item = (K, V);
            fn next(&mut self) -> Option<Self::Item> {
                while self.lo < self.hi {
                    let r = self.m.slots[self.lo].take();
                    self.lo += 1;
                    if r.is_some() {
                        return r;
                    }
                }
                None
            }
        }
        impl<K, V> DoubleEndedIterator for IntoIter<K, V> {
            fn next_back(&mut self) -> Option<Self::Item> {
                while self.lo < self.hi {
                    self.hi -= 1;
                    let r = self.m.slots[self.hi].take();
                    if r.is_some() {
                        return r;
                    }
                }
                None
            }
        }
        pub struct IntoValues<K, V>(IntoIter<K, V>);
        impl<K, V> Iterator for IntoValues<K, V> {
            type Item = V;
            fn next(&mut self) -> Option<V> {
                self.0.next().map(|(_, v)| v)
            }
        }
        impl<K, V> IntoIterator for BTreeMap<K, V> {
            type Item = (K, V);
            type IntoIter = IntoIter<K, V>;
            fn into_iter(self) -> IntoIter<K, V> {
                let hi = if <K as ModelKey>::DIRECT { CAP } else { self.len };
                IntoIter { m: self, lo: 0, hi }
            }
        }
        impl<K: Ord, V> FromIterator<(K, V)> for BTreeMap<K, V> {
            fn from_iter<I: IntoIterator<Item = (K, V)>>(it: I) -> Self {
                let mut m = BTreeMap::new();
                for (k, v) in it {
                    m.insert(k, v);
                }
                m
            }
        }
        impl<K: Ord, V> Extend<(K, V)> for BTreeMap<K, V> {
            fn extend<I: IntoIterator<Item = (K, V)>>(&mut self, it: I) {
                for (k, v) in it {
                    self.insert(k, v);
                }
            }
        }
        impl<K: Ord, Q: ?Sized + Ord, V> core::ops::Index<&Q> for BTreeMap<K, V>
        where
            K: Borrow<Q>,
        {
            type Output = V;
            fn index(&self, k: &Q) -> &V {
                self.get(k).expect("no entry found for key")
            }
        }
        impl<K: serde::Serialize, V: serde::Serialize> serde::Serialize for BTreeMap<K, V> {
            fn serialize<S: serde::Serializer>(&self, s: S) -> Result<S::Ok, S::Error> {
                s.collect_map(self.iter())
            }
        }
        impl<'de, K: serde::Deserialize<'de> + Ord, V: serde::Deserialize<'de>>
            serde::Deserialize<'de> for BTreeMap<K, V>
        {
            fn deserialize<D: serde::Deserializer<'de>>(d: D) -> Result<Self, D::Error> {
                let m: std::collections::BTreeMap<K, V> = serde::Deserialize::deserialize(d)?;
                Ok(m.into_iter().collect())
            }
        }
    }

    /// Sorted array set (thin wrapper over the map model).
    pub mod bset {
        use super::bmap::{self, BTreeMap};
        use core::borrow::Borrow;
        use core::ops::{Bound, RangeBounds};

        #[derive(Clone, PartialEq, Eq, PartialOrd, Ord, Hash)]
        pub struct BTreeSet<T> {
            m: BTreeMap<T, ()>,
        }
        impl<T> Default for BTreeSet<T> {
            fn default() -> Self {
                Self::new()
            }
        }
        impl<T: core::fmt::Debug> core::fmt::Debug for BTreeSet<T> {
            fn fmt(&self, f: &mut core::fmt::Formatter<'_>) -> core::fmt::Result {
                f.debug_set().entries(self.m.iter().map(|(k, _)| k)).finish()
            }
        }
        impl<T> BTreeSet<T> {
            pub const fn new() -> Self {
                BTreeSet { m: BTreeMap::new() }
            }
            pub fn len(&self) -> usize {
                self.m.len()
            }
            pub fn is_empty(&self) -> bool {
                self.m.is_empty()
            }
            pub fn iter(&self) -> Iter<'_, T> {
                Iter { it: self.m.iter(), lo: None, hi: None }
            }
        }
        impl<T: Ord> BTreeSet<T> {
            pub fn insert(&mut self, t: T) -> bool {
                if self.m.contains_key(&t) {
                    false
                } else {
                    self.m.insert(t, ());
                    true
                }
            }
            pub fn remove<Q: ?Sized + Ord>(&mut self, t: &Q) -> bool
            where
                T: Borrow<Q>,
            {
                self.m.remove(t).is_some()
            }
            pub fn contains<Q: ?Sized + Ord>(&self, t: &Q) -> bool
            where
                T: Borrow<Q>,
            {
                self.m.contains_key(t)
            }
            pub fn append(&mut self, other: &mut Self) {
                self.m.append(&mut other.m)
            }
            pub fn first(&self) -> Option<&T> {
                self.iter().next()
            }
            pub fn last(&self) -> Option<&T> {
                self.iter().next_back()
            }
            pub fn range<R: RangeBounds<T>>(&self, r: R) -> Iter<'_, T>
            where
                T: Clone,
            {
                let lo = match r.start_bound() {
                    Bound::Included(x) => Some((x.clone(), true)),
                    Bound::Excluded(x) => Some((x.clone(), false)),
                    Bound::Unbounded => None,
                };
                let hi = match r.end_bound() {
                    Bound::Included(x) => Some((x.clone(), true)),
                    Bound::Excluded(x) => Some((x.clone(), false)),
                    Bound::Unbounded => None,
                };
                Iter { it: self.m.iter(), lo, hi }
            }
        }
        pub struct Iter<'a, T> {
            it: bmap::Iter<'a, T, ()>,
            lo: Option<(T, bool)>,
            hi: Option<(T, bool)>,
        }
        impl<'a, T: PartialOrd> Iter<'a, T> {
            fn ok(&self, x: &T) -> bool {
                let a = match &self.lo {
                    None => true,
                    Some((l, inc)) => {
                        if *inc {
                            x >= l
                        } else {
                            x > l
                        }
                    }
                };
                let b = match &self.hi {
                    None => true,
                    Some((h, inc)) => {
                        if *inc {
                            x <= h
                        } else {
                            x < h
                        }
                    }
                };
                a && b
            }
        }
        impl<'a, T: PartialOrd> Iterator for Iter<'a, T> {
            type Item = &'a T;
            fn next(&mut self) -> Option<&'a T> {
                loop {
                    match self.it.next() {
                        None => return None,
                        Some((k, _)) => {
                            if self.ok(k) {
                                return Some(k);
                            }
                        }
                    }
                }
            }
        }
        impl<'a, T: PartialOrd> DoubleEndedIterator for Iter<'a, T> {
            fn next_back(&mut self) -> Option<&'a T> {
                loop {
                    match self.it.next_back() {
                        None => return None,
                        Some((k, _)) => {
                            if self.ok(k) {
                                return Some(k);
                            }
                        }
                    }
                }
            }
        }
        pub struct IntoIter<T>(bmap::IntoIter<T, ()>);
        impl<T> Iterator for IntoIter<T> {
            type Item = T;
            fn next(&mut self) -> Option<T> {
                self.0.next().map(|(k, _)| k)
            }
        }
        impl<T> IntoIterator for BTreeSet<T> {
            type Item = T;
            type IntoIter = IntoIter<T>;
            fn into_iter(self) -> IntoIter<T> {
                IntoIter(self.m.into_iter())
            }
        }
        impl<'a, T: PartialOrd> IntoIterator for &'a BTreeSet<T> {
            type Item = &'a T;
            type IntoIter = Iter<'a, T>;
            fn into_iter(self) -> Iter<'a, T> {
                self.iter()
            }
        }
        impl<T: Ord> FromIterator<T> for BTreeSet<T> {
            fn from_iter<I: IntoIterator<Item = T>>(it: I) -> Self {
                let mut s = BTreeSet::new();
                for t in it {
                    s.insert(t);
                }
                s
            }
        }
        impl<T: Ord> Extend<T> for BTreeSet<T> {
            fn extend<I: IntoIterator<Item = T>>(&mut self, it: I) {
                for t in it {
                    self.insert(t);
                }
            }
        }
        impl<T: serde::Serialize> serde::Serialize for BTreeSet<T> {
            fn serialize<S: serde::Serializer>(&self, s: S) -> Result<S::Ok, S::Error> {
                s.collect_seq(self.m.iter().map(|(k, _)| k))
            }
        }
        impl<'de, T: serde::Deserialize<'de> + Ord> serde::Deserialize<'de> for BTreeSet<T> {
            fn deserialize<D: serde::Deserializer<'de>>(d: D) -> Result<Self, D::Error> {
                let m: std::collections::BTreeSet<T> = serde::Deserialize::deserialize(d)?;
                Ok(m.into_iter().collect())
            }
        }
    }

    /// Unordered slot map: iteration order is slot order.
    pub mod hmap {
        use super::{ModelKey, CAP};
        use core::borrow::Borrow;

        #[derive(Clone)]
        pub struct HashMap<K, V> {
            pub(crate) slots: [Option<(K, V)>; CAP],
        }
        impl<K, V> Default for HashMap<K, V> {
            fn default() -> Self {
                Self::new()
            }
        }
        impl<K: core::fmt::Debug, V: core::fmt::Debug> core::fmt::Debug for HashMap<K, V> {
            fn fmt(&self, f: &mut core::fmt::Formatter<'_>) -> core::fmt::Result {
                f.debug_map().entries(self.iter()).finish()
            }
        }
        impl<K, V> HashMap<K, V> {
            pub fn new() -> Self {
                HashMap { slots: [const { None }; CAP] }
            }
            pub fn len(&self) -> usize {
                let mut n = 0;
                let mut i = 0;
                while i < CAP {
                    if self.slots[i].is_some() {
                        n += 1;
                    }
                    i += 1;
                }
                n
            }
            pub fn is_empty(&self) -> bool {
                self.len() == 0
            }
            pub fn iter(&self) -> Iter<'_, K, V> {
                Iter { m: self, i: 0 }
            }
            pub fn keys(&self) -> impl Iterator<Item = &K> {
                self.iter().map(|(k, _)| k)
            }
            pub fn values(&self) -> impl Iterator<Item = &V> {
                self.iter().map(|(_, v)| v)
            }
            pub fn iter_mut(&mut self) -> impl Iterator<Item = (&K, &mut V)> {
                self.slots.iter_mut().filter_map(|s| s.as_mut().map(|(k, v)| (&*k, v)))
            }
            pub fn values_mut(&mut self) -> impl Iterator<Item = &mut V> {
                self.slots.iter_mut().filter_map(|s| s.as_mut().map(|(_, v)| v))
            }
            pub fn into_keys(self) -> impl Iterator<Item = K> {
                self.into_iter().map(|(k, _)| k)
            }
            pub fn into_values(self) -> impl Iterator<Item = V> {
                self.into_iter().map(|(_, v)| v)
            }
            pub fn drain(&mut self) -> IntoIter<K, V> {
                core::mem::take(self).into_iter()
            }
        }
        impl<K: Eq, V> HashMap<K, V> {
            pub fn get<Q: ?Sized + Eq>(&self, k: &Q) -> Option<&V>
            where
                K: Borrow<Q>,
            {
                if <K as ModelKey>::DIRECT {
                    let i = k.midx();
                    if i < CAP {
                        return match &self.slots[i] {
                            Some((_, v)) => Some(v),
                            None => None,
                        };
                    }
                    return None;
                }
                let mut i = 0;
                while i < CAP {
                    if let Some((kk, v)) = &self.slots[i] {
                        if kk.borrow() == k {
                            return Some(v);
                        }
                    }
                    i += 1;
                }
                None
            }
            pub fn get_mut<Q: ?Sized + Eq>(&mut self, k: &Q) -> Option<&mut V>
            where
                K: Borrow<Q>,
            {
                if <K as ModelKey>::DIRECT {
                    let i = k.midx();
                    if i < CAP {
                        return match &mut self.slots[i] {
                            Some((_, v)) => Some(v),
                            None => None,
                        };
                    }
                    return None;
                }
                for s in self.slots.iter_mut() {
                    if let Some((kk, v)) = s {
                        if (*kk).borrow() == k {
                            return Some(v);
                        }
                    }
                }
                None
            }
            pub fn contains_key<Q: ?Sized + Eq>(&self, k: &Q) -> bool
            where
                K: Borrow<Q>,
            {
                self.get(k).is_some()
            }
            pub fn insert(&mut self, k: K, v: V) -> Option<V> {
                if <K as ModelKey>::DIRECT {
                    let i = k.midx();
                    if i >= CAP {
                        super::cap_exceeded();
                    }
                    let old = core::mem::replace(&mut self.slots[i], Some((k, v)));
                    return old.map(|(_, ov)| ov);
                }
                let mut i = 0;
                while i < CAP {
                    if let Some((kk, vv)) = &mut self.slots[i] {
                        if *kk == k {
                            return Some(core::mem::replace(vv, v));
                        }
                    }
                    i += 1;
                }
                self.insert_new(k, v);
                None
            }
            fn insert_new(&mut self, k: K, v: V) -> usize {
                if <K as ModelKey>::DIRECT {
                    let i = k.midx();
                    if i >= CAP {
                        super::cap_exceeded();
                    }
                    self.slots[i] = Some((k, v));
                    return i;
                }
                let mut cur = Some((k, v));
                let mut placed = CAP;
                let mut i = 0;
                while i < CAP {
                    if cur.is_some() && self.slots[i].is_none() {
                        self.slots[i] = cur.take();
                        placed = i;
                    }
                    i += 1;
                }
                if cur.is_some() { super::cap_exceeded(); }
                placed
            }
            pub fn remove<Q: ?Sized + Eq>(&mut self, k: &Q) -> Option<V>
            where
                K: Borrow<Q>,
            {
                if <K as ModelKey>::DIRECT {
                    let i = k.midx();
                    if i < CAP {
                        return self.slots[i].take().map(|(_, v)| v);
                    }
                    return None;
                }
                let mut i = 0;
                while i < CAP {
                    let hit = match &self.slots[i] {
                        Some((kk, _)) => kk.borrow() == k,
                        None => false,
                    };
                    if hit {
                        return self.slots[i].take().map(|(_, v)| v);
                    }
                    i += 1;
                }
                None
            }
            pub fn entry(&mut self, k: K) -> Entry<'_, K, V> {
                Entry { m: self, k }
            }
            pub fn retain<F: FnMut(&K, &mut V) -> bool>(&mut self, mut f: F) {
                let mut i = 0;
                while i < CAP {
                    let keep = match &mut self.slots[i] {
                        Some((k, v)) => f(k, v),
                        None => true,
                    };
                    if !keep {
                        self.slots[i] = None;
                    }
                    i += 1;
                }
            }
            pub fn clear(&mut self) {
                *self = Self::new();
            }
        }
        pub struct Entry<'a, K, V> {
            m: &'a mut HashMap<K, V>,
            k: K,
        }
        impl<'a, K: Eq, V> Entry<'a, K, V> {
            pub fn or_insert_with<F: FnOnce() -> V>(self, f: F) -> &'a mut V {
                if self.m.contains_key(&self.k) {
                    self.m.get_mut(&self.k).unwrap()
                } else {
                    let p = self.m.insert_new(self.k, f());
                    let mut i = 0;
                    for s in self.m.slots.iter_mut() {
                        if i == p {
                            if let Some((_, v)) = s {
                                return v;
                            }
                        }
                        i += 1;
                    }
                    unreachable!()
                }
            }
            pub fn or_insert(self, v: V) -> &'a mut V {
                self.or_insert_with(|| v)
            }
            pub fn and_modify<F: FnOnce(&mut V)>(self, f: F) -> Self {
                if let Some(v) = self.m.get_mut(&self.k) {
                    f(v);
                }
                self
            }
            pub fn key(&self) -> &K {
                &self.k
            }
            pub fn or_default(self) -> &'a mut V
            where
                V: Default,
            {
                self.or_insert_with(V::default)
            }
        }
        impl<K: Eq, V: PartialEq> PartialEq for HashMap<K, V> {
            fn eq(&self, o: &Self) -> bool {
                if <K as ModelKey>::DIRECT {
                    let mut i = 0;
                    let mut r = true;
                    while i < CAP {
                        let same = match (&self.slots[i], &o.slots[i]) {
                            (Some((_, a)), Some((_, b))) => a == b,
                            (None, None) => true,
                            _ => false,
                        };
                        if !same {
                            r = false;
                        }
                        i += 1;
                    }
                    return r;
                }
                if self.len() != o.len() {
                    return false;
                }
                let mut i = 0;
                while i < CAP {
                    if let Some((k, v)) = &self.slots[i] {
                        match o.get(k) {
                            Some(v2) => {
                                if v != v2 {
                                    return false;
                                }
                            }
                            None => return false,
                        }
                    }
                    i += 1;
                }
                true
            }
        }
        impl<K: Eq, V: Eq> Eq for HashMap<K, V> {}
        pub struct Iter<'a, K, V> {
            m: &'a HashMap<K, V>,
            i: usize,
        }
        impl<'a, K, V> Iterator for Iter<'a, K, V> {
            type Item = (&'a K, &'a V);
            fn next(&mut self) -> Option<Self::Item> {
                while self.i < CAP {
                    let r = self.m.slots[self.i].as_ref().map(|(k, v)| (k, v));
                    self.i += 1;
                    if r.is_some() {
                        return r;
                    }
                }
                None
            }
        }
        pub struct IntoIter<K, V> {
            m: HashMap<K, V>,
            i: usize,
        }
        impl<K, V> Iterator for IntoIter<K, V> {
            type Item = (K, V);
            fn next(&mut self) -> Option<Self::Item> {
                while self.i < CAP {
                    let r = self.m.slots[self.i].take();
                    self.i += 1;
                    if r.is_some() {
                        return r;
                    }
                }
                None
            }
        }
        impl<K, V> IntoIterator for HashMap<K, V> {
            type Item = (K, V);
            type IntoIter = IntoIter<K, V>;
            fn into_iter(self) -> IntoIter<K, V> {
                IntoIter { m: self, i: 0 }
            }
        }
        impl<'a, K, V> IntoIterator for &'a HashMap<K, V> {
            type Item = (&'a K, &'a V);
            type IntoIter = Iter<'a, K, V>;
            fn into_iter(self) -> Iter<'a, K, V> {
                self.iter()
            }
        }
        impl<K: Eq, V> FromIterator<(K, V)> for HashMap<K, V> {
            fn from_iter<I: IntoIterator<Item = (K, V)>>(it: I) -> Self {
                let mut m = HashMap::new();
                for (k, v) in it {
                    m.insert(k, v);
                }
                m
            }
        }
        impl<K: Eq, V> Extend<(K, V)> for HashMap<K, V> {
            fn extend<I: IntoIterator<Item = (K, V)>>(&mut self, it: I) {
                for (k, v) in it {
                    self.insert(k, v);
                }
            }
        }
        impl<K: serde::Serialize, V: serde::Serialize> serde::Serialize for HashMap<K, V> {
            fn serialize<S: serde::Serializer>(&self, s: S) -> Result<S::Ok, S::Error> {
                s.collect_map(self.iter())
            }
        }
        impl<'de, K: serde::Deserialize<'de> + Eq + core::hash::Hash, V: serde::Deserialize<'de>>
            serde::Deserialize<'de> for HashMap<K, V>
        {
            fn deserialize<D: serde::Deserializer<'de>>(d: D) -> Result<Self, D::Error> {
                let m: std::collections::HashMap<K, V> = serde::Deserialize::deserialize(d)?;
                Ok(m.into_iter().collect())
            }
        }
    }

    pub mod hset {
        use super::hmap::{self, HashMap};
        use core::borrow::Borrow;

        #[derive(Clone)]
        pub struct HashSet<T> {
            m: HashMap<T, ()>,
        }
        impl<T> Default for HashSet<T> {
            fn default() -> Self {
                HashSet { m: HashMap::new() }
            }
        }
        impl<T: core::fmt::Debug> core::fmt::Debug for HashSet<T> {
            fn fmt(&self, f: &mut core::fmt::Formatter<'_>) -> core::fmt::Result {
                f.debug_set().entries(self.iter()).finish()
            }
        }
        impl<T> HashSet<T> {
            pub fn new() -> Self {
                Self::default()
            }
            pub fn len(&self) -> usize {
                self.m.len()
            }
            pub fn is_empty(&self) -> bool {
                self.m.is_empty()
            }
            pub fn iter(&self) -> impl Iterator<Item = &T> {
                self.m.iter().map(|(k, _)| k)
            }
        }
        impl<T: Eq> HashSet<T> {
            pub fn insert(&mut self, t: T) -> bool {
                if self.m.contains_key(&t) {
                    false
                } else {
                    self.m.insert(t, ());
                    true
                }
            }
            pub fn remove<Q: ?Sized + Eq>(&mut self, t: &Q) -> bool
            where
                T: Borrow<Q>,
            {
                self.m.remove(t).is_some()
            }
            pub fn contains<Q: ?Sized + Eq>(&self, t: &Q) -> bool
            where
                T: Borrow<Q>,
            {
                self.m.contains_key(t)
            }
        }
        impl<T: Eq> PartialEq for HashSet<T> {
            fn eq(&self, o: &Self) -> bool {
                self.m == o.m
            }
        }
        impl<T: Eq> Eq for HashSet<T> {}
        pub struct IntoIter<T>(hmap::IntoIter<T, ()>);
        impl<T> Iterator for IntoIter<T> {
            type Item = T;
            fn next(&mut self) -> Option<T> {
                self.0.next().map(|(k, _)| k)
            }
        }
        impl<T> IntoIterator for HashSet<T> {
            type Item = T;
            type IntoIter = IntoIter<T>;
            fn into_iter(self) -> IntoIter<T> {
                IntoIter(self.m.into_iter())
            }
        }
        impl<T: Eq> FromIterator<T> for HashSet<T> {
            fn from_iter<I: IntoIterator<Item = T>>(it: I) -> Self {
                let mut s = HashSet::new();
                for t in it {
                    s.insert(t);
                }
                s
            }
        }
        impl<T: Eq> Extend<T> for HashSet<T> {
            fn extend<I: IntoIterator<Item = T>>(&mut self, it: I) {
                for t in it {
                    self.insert(t);
                }
            }
        }
        impl<T: serde::Serialize> serde::Serialize for HashSet<T> {
            fn serialize<S: serde::Serializer>(&self, s: S) -> Result<S::Ok, S::Error> {
                s.collect_seq(self.iter())
            }
        }
        impl<'de, T: serde::Deserialize<'de> + Eq + core::hash::Hash> serde::Deserialize<'de>
            for HashSet<T>
        {
            fn deserialize<D: serde::Deserializer<'de>>(d: D) -> Result<Self, D::Error> {
                let m: std::collections::HashSet<T> = serde::Deserialize::deserialize(d)?;
                Ok(m.into_iter().collect())
            }
        }
    }
}
