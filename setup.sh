#!/bin/sh
# Offline set-up: warm the scratch builds (dependencies from the local cargo cache) and smoke-test the tools.
set -e
cd "$(dirname "$0")"
export CARGO_NET_OFFLINE=true
python3-vt -c "import z3; print('z3', z3.get_version_string())"
python3 tools/vbuild.py base
python3 tools/vbuild.py small
echo "setup ok"
